//! Reference client-side response parser (RFC 7230 §3.3.3 recipient rules), independent of the
//! code under test. It is told the request methods, in order, so that it knows which responses
//! are to HEAD requests.

#[derive(Clone, Debug, PartialEq, Eq)]
pub enum RFraming {
    /// no body by rule (HEAD request, 1xx, 204, 304)
    NoBody,
    Cl(usize),
    Chunked,
    /// delimited by connection close
    Close,
}

#[derive(Clone, Debug)]
pub struct ParsedResp {
    pub status: u16,
    /// 0 = HTTP/1.0, 1 = HTTP/1.1
    pub version: u8,
    /// lower-cased name, value — wire order
    pub headers: Vec<(String, String)>,
    pub body: Vec<u8>,
    pub framing: RFraming,
    /// the message is complete per its framing (for Close framing: the stream has ended)
    pub complete: bool,
    pub start: usize,
    pub head_end: usize,
    pub end: usize,
    /// index of the request this final response answers (None for interim 1xx)
    pub req_index: Option<usize>,
    pub interim: bool,
}

impl ParsedResp {
    pub fn header(&self, name: &str) -> Vec<&str> {
        self.headers.iter().filter(|(k, _)| k == name).map(|(_, v)| v.as_str()).collect()
    }
    pub fn tag(&self) -> Option<usize> {
        self.header("x-tag").first().and_then(|v| v.trim_start_matches('h').parse().ok())
    }
    pub fn says_close(&self) -> bool {
        self.header("connection").iter().any(|v| v.to_ascii_lowercase().split(',').any(|t| t.trim() == "close"))
    }
    pub fn says_keep_alive(&self) -> bool {
        self.header("connection").iter().any(|v| v.to_ascii_lowercase().split(',').any(|t| t.trim() == "keep-alive"))
    }
}

#[derive(Clone, Debug, Default)]
pub struct ParsedStream {
    pub responses: Vec<ParsedResp>,
    /// bytes after the last complete message that do not form a complete message
    pub trailing_incomplete: bool,
    /// a syntax error: (offset, description). Parsing stops there.
    pub garbage: Option<(usize, String)>,
}

fn find(hay: &[u8], needle: &[u8], from: usize) -> Option<usize> {
    if hay.len() < needle.len() {
        return None;
    }
    (from..=hay.len() - needle.len()).find(|&i| &hay[i..i + needle.len()] == needle)
}

/// `methods[i]` is the method of the i-th request; responses beyond the list are assumed to answer GET.
/// `stream_ended`: the server closed / dropped the connection after these bytes.
pub fn parse_stream(out: &[u8], methods: &[String], stream_ended: bool) -> ParsedStream {
    let mut ps = ParsedStream::default();
    let mut pos = 0usize;
    let mut req_i = 0usize;
    while pos < out.len() {
        let start = pos;
        let Some(he) = find(out, b"\r\n\r\n", pos) else {
            ps.trailing_incomplete = true;
            break;
        };
        let head = &out[pos..he];
        let head_end = he + 4;
        let text = String::from_utf8_lossy(head).into_owned();
        let mut lines = text.split("\r\n");
        let status_line = lines.next().unwrap_or("");
        let mut parts = status_line.splitn(3, ' ');
        let ver = parts.next().unwrap_or("");
        let code = parts.next().unwrap_or("");
        let version = match ver {
            "HTTP/1.1" => 1,
            "HTTP/1.0" => 0,
            _ => {
                ps.garbage = Some((pos, format!("bad status line {:?}", status_line)));
                break;
            }
        };
        let Ok(status) = code.parse::<u16>() else {
            ps.garbage = Some((pos, format!("bad status code in {:?}", status_line)));
            break;
        };
        let mut headers = vec![];
        let mut bad = None;
        for l in lines {
            match l.split_once(':') {
                Some((k, v)) if !k.is_empty() && !k.contains(' ') => {
                    headers.push((k.to_ascii_lowercase(), v.trim().to_string()))
                }
                _ => {
                    bad = Some(format!("bad header line {:?}", l));
                    break;
                }
            }
        }
        if let Some(b) = bad {
            ps.garbage = Some((pos, b));
            break;
        }
        let interim = (100..200).contains(&status) && status != 101;
        let method = methods.get(req_i).map(|s| s.as_str()).unwrap_or("GET");
        let te: Vec<String> = headers
            .iter()
            .filter(|(k, _)| k == "transfer-encoding")
            .flat_map(|(_, v)| v.split(',').map(|t| t.trim().to_ascii_lowercase()).collect::<Vec<_>>())
            .collect();
        let cls: Vec<&str> = headers.iter().filter(|(k, _)| k == "content-length").map(|(_, v)| v.as_str()).collect();
        let framing = if interim || status == 204 || status == 304 || method == "HEAD" || status == 101 {
            RFraming::NoBody
        } else if te.last().map(|s| s == "chunked").unwrap_or(false) {
            RFraming::Chunked
        } else if !te.is_empty() {
            RFraming::Close
        } else if !cls.is_empty() {
            let vals: Vec<Option<usize>> = cls.iter().map(|v| v.parse::<usize>().ok()).collect();
            if vals.iter().any(|v| v.is_none()) || vals.windows(2).any(|w| w[0] != w[1]) {
                ps.garbage = Some((pos, format!("invalid Content-Length {:?}", cls)));
                break;
            }
            RFraming::Cl(vals[0].unwrap())
        } else {
            RFraming::Close
        };
        let mut body = vec![];
        let mut complete = true;
        let mut end = head_end;
        match framing {
            RFraming::NoBody => {}
            RFraming::Cl(n) => {
                let avail = out.len() - head_end;
                if avail >= n {
                    body = out[head_end..head_end + n].to_vec();
                    end = head_end + n;
                } else {
                    body = out[head_end..].to_vec();
                    end = out.len();
                    complete = false;
                }
            }
            RFraming::Close => {
                body = out[head_end..].to_vec();
                end = out.len();
                complete = stream_ended;
            }
            RFraming::Chunked => {
                let mut p = head_end;
                loop {
                    let Some(le) = find(out, b"\r\n", p) else {
                        complete = false;
                        end = out.len();
                        break;
                    };
                    let line = String::from_utf8_lossy(&out[p..le]).into_owned();
                    let size_txt = line.split(';').next().unwrap_or("").trim();
                    let Ok(size) = usize::from_str_radix(size_txt, 16) else {
                        ps.garbage = Some((p, format!("bad chunk size line {:?}", line)));
                        complete = false;
                        end = out.len();
                        break;
                    };
                    p = le + 2;
                    if size == 0 {
                        // trailers until empty line
                        loop {
                            let Some(te) = find(out, b"\r\n", p) else {
                                complete = false;
                                end = out.len();
                                break;
                            };
                            if te == p {
                                p += 2;
                                end = p;
                                break;
                            }
                            p = te + 2;
                        }
                        break;
                    }
                    if out.len() < p + size + 2 {
                        body.extend_from_slice(&out[p..out.len().min(p + size)]);
                        complete = false;
                        end = out.len();
                        break;
                    }
                    body.extend_from_slice(&out[p..p + size]);
                    if &out[p + size..p + size + 2] != b"\r\n" {
                        ps.garbage = Some((p + size, "chunk data not followed by CRLF".into()));
                        complete = false;
                        end = out.len();
                        break;
                    }
                    p += size + 2;
                }
            }
        }
        let r = ParsedResp {
            status,
            version,
            headers,
            body,
            framing,
            complete,
            start,
            head_end,
            end,
            req_index: if interim { None } else { Some(req_i) },
            interim,
        };
        if !interim {
            req_i += 1;
        }
        let stop = !r.complete || ps.garbage.is_some();
        if !r.complete {
            ps.trailing_incomplete = true;
        }
        ps.responses.push(r);
        if stop {
            break;
        }
        pos = end;
    }
    ps
}

#[cfg(test)]
mod tests {
    use super::*;
    #[test]
    fn basic() {
        let out = b"HTTP/1.1 200 OK\r\ncontent-length: 3\r\n\r\nabcHTTP/1.1 200 OK\r\ntransfer-encoding: chunked\r\n\r\n2\r\nhi\r\n0\r\n\r\n";
        let ps = parse_stream(out, &["GET".into(), "GET".into()], false);
        assert_eq!(ps.responses.len(), 2);
        assert_eq!(ps.responses[0].body, b"abc");
        assert_eq!(ps.responses[1].body, b"hi");
        assert!(ps.responses[1].complete);
        assert!(!ps.trailing_incomplete);
    }
}
