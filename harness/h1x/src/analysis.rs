//! Turns one execution into the facts the oracle clauses talk about.

use crate::driver::{Event, Exec};
use crate::respparse::{parse_stream, ParsedResp, ParsedStream};
use crate::scenario::*;

#[derive(Clone, Debug)]
pub struct Dispatched {
    pub n: usize,
    pub handler: usize,
    pub method: String,
    pub target: String,
    pub version: u8,
    pub headers: Vec<(String, String)>,
    /// bytes accepted by the socket when the request was handed to the service
    pub out_len: usize,
    pub now_ms: u64,
    pub log_index: usize,
    pub body: Vec<u8>,
    /// None = the handler did not read to an end; Some("eof") / Some("err:…")
    pub body_end: Option<String>,
    pub responded: bool,
    pub failed: bool,
}

pub struct Analysis {
    pub stream: Stream,
    pub dispatched: Vec<Dispatched>,
    pub parsed: ParsedStream,
    /// `out` with the Date header values masked
    pub out_masked: Vec<u8>,
    pub conn_ended: bool,
}

pub fn mask_date(out: &[u8]) -> Vec<u8> {
    let mut v = out.to_vec();
    let pat = b"date: ";
    let mut i = 0;
    while i + pat.len() + 29 <= v.len() {
        if &v[i..i + pat.len()] == pat && (i == 0 || v[i - 1] == b'\n') {
            for b in &mut v[i + pat.len()..i + pat.len() + 29] {
                *b = b'X';
            }
            i += pat.len() + 29;
        } else {
            i += 1;
        }
    }
    v
}

impl Analysis {
    pub fn new(sc: &Scenario, ex: &Exec) -> Self {
        let stream = sc.stream();
        let mut dispatched: Vec<Dispatched> = vec![];
        for (li, e) in ex.log.iter().enumerate() {
            match e {
                Event::Dispatch { n, handler, method, target, version, headers, out_len, now_ms } => {
                    dispatched.push(Dispatched {
                        n: *n,
                        handler: *handler,
                        method: method.clone(),
                        target: target.clone(),
                        version: *version,
                        headers: headers.clone(),
                        out_len: *out_len,
                        now_ms: *now_ms,
                        log_index: li,
                        body: vec![],
                        body_end: None,
                        responded: false,
                        failed: false,
                    });
                }
                Event::BodyRead { handler, data } => {
                    if let Some(d) = dispatched.iter_mut().rev().find(|d| d.handler == *handler) {
                        d.body.extend_from_slice(data);
                    }
                }
                Event::BodyEnd { handler, kind } => {
                    if let Some(d) = dispatched.iter_mut().rev().find(|d| d.handler == *handler) {
                        d.body_end = Some(kind.clone());
                    }
                }
                Event::Responded { handler, failed, .. } => {
                    if let Some(d) = dispatched.iter_mut().rev().find(|d| d.handler == *handler) {
                        d.responded = true;
                        d.failed = *failed;
                    }
                }
                _ => {}
            }
        }
        let methods: Vec<String> = stream.truths.iter().map(|t| t.method.clone()).collect();
        let conn_ended = ex.done.is_some() || ex.io.shutdown_done || ex.io.dropped;
        let parsed = parse_stream(&ex.io.out, &methods, conn_ended);
        let out_masked = mask_date(&ex.io.out);
        Analysis { stream, dispatched, parsed, out_masked, conn_ended }
    }

    pub fn finals(&self) -> Vec<&ParsedResp> {
        self.parsed.responses.iter().filter(|r| !r.interim).collect()
    }
}

/// The observation hash used for class counting and determinism checks.
pub fn class_of(ex: &Exec, a: &Analysis) -> u64 {
    let mut s = String::new();
    s.push_str(&mc_core::show(&a.out_masked));
    s.push('|');
    for e in &ex.log {
        match e {
            Event::Env { .. } => {}
            other => {
                s.push_str(&format!("{:?};", other));
            }
        }
    }
    s.push_str(&format!("|{:?}|{}|{}|{}", ex.done, ex.io.shutdown_done, ex.io.consumed, ex.now_ms));
    mc_core::fnv_str(&s)
}
