//! C04 — connections always progress: no lost wake-ups, all bytes flushed, termination.

use crate::analysis::Analysis;
use crate::driver::Exec;
use crate::respparse::RFraming;
use crate::scenario::*;
use crate::viol;
use mc_core::Violation;

const P: &str = "C04";

pub fn check(sc: &Scenario, ex: &Exec, a: &Analysis) -> Vec<Violation> {
    let mut v = vec![];
    let faulted = ex.io.fault.is_some() || ex.io.reset;

    // (a) no lost wake-up: a poll nobody asked for must not find work to do
    if let Some(first) = ex.probe_changes.first() {
        let what = if first.contains("consumed") && !first.contains(&format!("consumed {}->{}", 0, 0)) { "progress" } else { "progress" };
        v.push(viol(P, "a", &format!("lost-wakeup:{}", classify_probe(first)), format!("{first} ({} such points); {what} was possible without any new event, so a wake-up was lost", ex.probe_changes.len())));
    }

    // (b)/(d) termination: once the peer has finished sending, all handlers have completed and
    // all output was accepted, the connection task is Ready
    if ex.done.is_none() && !ex.horizon_hit {
        let legit_read_wait = ex.io.read_waiting && !ex.fin_delivered;
        let legit_write_wait = ex.io.write_waiting && (sc.env.stall_writes_after.is_some() || sc.env.shutdown_never);
        if !legit_read_wait && !legit_write_wait {
            let sig = format!(
                "not-terminated:fin={},eof-seen={},read-parked={},write-parked={},spin={}",
                ex.fin_delivered, ex.io.eof_delivered, ex.io.read_waiting, ex.io.write_waiting, ex.spin_polls > 3
            );
            v.push(viol(P, "d", &sig, format!(
                "all environment events were delivered (peer fin delivered: {}, gates released: {}) but the connection future is still pending: consumed {}/{} bytes, out {} bytes, read waker parked: {}, write waker parked: {}, self-wake polls without progress: {}",
                ex.fin_delivered, ex.gates_total, ex.io.consumed, ex.io.inbox_len, ex.io.out.len(), ex.io.read_waiting, ex.io.write_waiting, ex.spin_polls)));
        }
    }

    // (c) all bytes flushed: a buffering transport must not be left with accepted-but-unflushed
    // bytes once the connection has gone quiet
    if ex.io.staged > 0 && !ex.horizon_hit && ex.io.fault.is_none() && !ex.io.reset {
        v.push(viol(P, "c", "bytes-accepted-but-never-flushed", format!(
            "{} response bytes were accepted by the (buffering) transport but poll_flush was never driven to completion: the peer never receives them (connection result {:?})",
            ex.io.staged, ex.done)));
    }

    // (c) every response byte exactly once and in order: the accepted stream is a sequence of
    // well-formed messages whose bodies are what the handlers produced
    if let Some((off, what)) = &a.parsed.garbage {
        v.push(viol(P, "c", "garbled-output", format!("accepted byte stream is not a sequence of HTTP messages: {what} at offset {off}")));
    }
    let finals = a.finals();
    for (j, r) in finals.iter().enumerate() {
        let Some(d) = a.dispatched.get(j) else {
            if r.tag().is_some() {
                v.push(viol(P, "c", "response-without-request", format!("response #{j} has no dispatched request")));
            }
            continue;
        };
        if let Some(t) = r.tag() {
            if t != d.handler {
                v.push(viol(P, "c", "response-order", format!("response #{j} carries tag h{t}, expected h{}", d.handler)));
                continue;
            }
        } else {
            continue;
        }
        let prog = &sc.programs[d.handler];
        let (produced, errs) = prog.body.produced();
        let truth = &a.stream.truths[d.handler];
        // (a 101 is written by the upgrade service of the harness, not by the handler program)
        let no_body = truth.method == "HEAD" || prog.status == 204 || prog.status == 304 || r.status == 101;
        if no_body || errs {
            continue;
        }
        let expected: Vec<u8> = match prog.body.declared() {
            SizeDecl::Sized(n) => produced.iter().copied().take(n as usize).collect(),
            SizeDecl::None => vec![],
            SizeDecl::Stream => produced.clone(),
        };
        if r.complete {
            if r.body != expected {
                v.push(viol(P, "c", &format!("body-mismatch:{}", kind(&r.framing)), format!(
                    "response #{j} (h{}) decodes to {} bytes {:?}… but the handler produced {} bytes {:?}…",
                    d.handler, r.body.len(), mc_core::show_short(&r.body, 24), expected.len(), mc_core::show_short(&expected, 24))));
            }
        } else if !expected.starts_with(&r.body) && r.framing != RFraming::NoBody {
            v.push(viol(P, "c", &format!("body-prefix-mismatch:{}", kind(&r.framing)), format!(
                "partial response #{j} (h{}) body is not a prefix of what the handler produced", d.handler)));
        }
    }
    // when nothing went wrong on the wire every dispatched request's response is complete
    if matches!(ex.done, Some(Ok(()))) && !faulted && a.parsed.garbage.is_none() && sc.env.stall_writes_after.is_none() {
        let complete = finals.iter().filter(|r| r.complete).count();
        let any_err = a.dispatched.iter().any(|d| sc.programs.get(d.handler).map(|p| p.body.produced().1).unwrap_or(false));
        // a connection legitimately ends early when the peer half-closes and half-closed connections are not allowed
        let early_fin = ex.fin_delivered && (!sc.config.half_closed || sc.fin == FinPlan::Anytime);
        if complete < a.dispatched.len() && !any_err && !early_fin {
            v.push(viol(P, "c", "response-bytes-lost", format!(
                "connection ended Ok but only {complete} of {} dispatched requests have a complete response on the wire ({} bytes accepted)",
                a.dispatched.len(), ex.io.out.len())));
        }
    }
    v
}

fn kind(f: &RFraming) -> &'static str {
    match f {
        RFraming::NoBody => "no-body",
        RFraming::Cl(_) => "content-length",
        RFraming::Chunked => "chunked",
        RFraming::Close => "close-delimited",
    }
}

fn classify_probe(s: &str) -> &'static str {
    // which observable moved
    let moved = |key: &str| -> bool {
        if let Some(i) = s.find(key) {
            let rest = &s[i + key.len()..];
            let mut it = rest.split(|c: char| c == ',' || c == ' ').next().unwrap_or("").split("->");
            let (x, y) = (it.next().unwrap_or(""), it.next().unwrap_or(""));
            x != y
        } else {
            false
        }
    };
    if moved("reader ") {
        "body-reader-task"
    } else if moved("done ") {
        "completion"
    } else if moved("consumed ") {
        "socket-read"
    } else if moved("out ") {
        "socket-write"
    } else if moved("log ") {
        "handler-progress"
    } else {
        "other"
    }
}

pub fn nontrivial(ex: &Exec, _a: &Analysis) -> bool {
    ex.io.writes.len() > 1 || ex.io.fault.is_some() || ex.probes > 1
}

fn data(n: usize, tag: u8) -> Vec<u8> {
    (0..n).map(|i| b'a' + ((i as u8).wrapping_add(tag) % 26)).collect()
}

pub fn scenarios(_tier: &str) -> Vec<Scenario> {
    let mut out = vec![];
    let std_budgets = vec![("read", 40), ("write", 40), ("flush", 16), ("env", 60), ("envq", 12), ("shutdown", 3)];
    let mut add = |name: &str, reqs: Vec<RequestSpec>, progs: Vec<HandlerProgram>, f: &dyn Fn(&mut Scenario)| {
        let reqs: Vec<RequestSpec> = reqs.into_iter().enumerate().map(|(i, mut r)| {
            r.handler = i;
            r
        }).collect();
        let mut s = Scenario::new(name, reqs, progs);
        s.env.probe = true;
        s.env.budgets = std_budgets.clone();
        s.io.read_faults = true;
        f(&mut s);
        out.push(s);
    };
    let ok_bytes = || HandlerProgram::ok(BodySpec::Bytes(b"hello".to_vec()));
    let big_stream = |n: usize, k: usize| {
        HandlerProgram::ok(BodySpec::BodyStream((0..k).map(|i| Chunk::Data(data(n, i as u8))).collect()))
    };
    let nop = |_: &mut Scenario| {};

    add("get", vec![RequestSpec::new("GET", 0)], vec![ok_bytes()], &nop);
    add("get-pend", vec![RequestSpec::new("GET", 0)], vec![ok_bytes().pend(2)], &nop);
    add("head", vec![RequestSpec::new("HEAD", 0)], vec![ok_bytes()], &nop);
    add("get-204", vec![RequestSpec::new("GET", 0)], vec![HandlerProgram::ok(BodySpec::Empty).status(204)], &nop);
    add("get-close", vec![RequestSpec::new("GET", 0).conn("close")], vec![ok_bytes()], &nop);
    add("get-10", vec![RequestSpec::new("GET", 0).v10()], vec![ok_bytes()], &nop);
    add("get-stream-pend", vec![RequestSpec::new("GET", 0)], vec![HandlerProgram::ok(BodySpec::BodyStream(vec![
        Chunk::Data(b"he".to_vec()), Chunk::Pending, Chunk::Data(b"llo".to_vec()), Chunk::Pending]))], &nop);
    add("get-sized-pend", vec![RequestSpec::new("GET", 0)], vec![HandlerProgram::ok(BodySpec::SizedStream(5, vec![
        Chunk::Pending, Chunk::Data(b"he".to_vec()), Chunk::Pending, Chunk::Data(b"llo".to_vec())]))], &nop);
    add("get-large-stream", vec![RequestSpec::new("GET", 0)], vec![big_stream(20_000, 4)], &nop);
    add("get-large-stream-smallbuf", vec![RequestSpec::new("GET", 0)], vec![big_stream(3_000, 5)], &|s| s.config.write_buf = 1024);
    add("get-large-bytes", vec![RequestSpec::new("GET", 0)], vec![HandlerProgram::ok(BodySpec::Bytes(data(70_000, 3)))], &nop);
    add("get-body-err", vec![RequestSpec::new("GET", 0)], vec![HandlerProgram::ok(BodySpec::BodyStream(vec![Chunk::Data(b"ab".to_vec()), Chunk::Pending, Chunk::Err]))], &nop);
    // a transport that buffers internally (TLS-like): poll_flush must be driven to completion
    for (n, reqs, progs) in [
        ("get", vec![RequestSpec::new("GET", 0)], vec![ok_bytes()]),
        ("get-close", vec![RequestSpec::new("GET", 0).conn("close")], vec![ok_bytes()]),
        ("get-stream-pend", vec![RequestSpec::new("GET", 0)], vec![HandlerProgram::ok(BodySpec::BodyStream(vec![Chunk::Data(b"he".to_vec()), Chunk::Pending, Chunk::Data(b"llo".to_vec())]))]),
        ("pipe-2", vec![RequestSpec::new("GET", 0), RequestSpec::new("GET", 1)], vec![ok_bytes().pend(1), ok_bytes()]),
        ("post-readall", vec![RequestSpec::new("POST", 0).cl(&data(64, 1))], vec![ok_bytes()]),
        ("malformed", vec![RequestSpec::new("POST", 0).malformed(Malformed::ClAndTe)], vec![ok_bytes()]),
    ] {
        add(&format!("buffered-io-{n}"), reqs.clone(), progs.clone(), &|s| s.io.buffered = true);
        add(&format!("buffered-io-{n}-peer-stays"), reqs, progs, &|s| {
            s.io.buffered = true;
            s.fin = FinPlan::Never;
        });
    }
    // many drain rounds: a body far larger than the write buffer, always ready, socket always writable
    add("get-many-rounds-smallbuf", vec![RequestSpec::new("GET", 0)], vec![big_stream(2_000, 24)], &|s| s.config.write_buf = 1024);
    add("get-many-rounds-default-buf", vec![RequestSpec::new("GET", 0)], vec![big_stream(40_000, 14)], &nop);
    add("get-many-rounds-sized", vec![RequestSpec::new("GET", 0)], vec![HandlerProgram::ok(BodySpec::SizedStream(48_000, (0..24).map(|i| Chunk::Data(data(2_000, i as u8))).collect()))], &|s| s.config.write_buf = 1024);
    // the handler sits on a large chunked upload (channel paused), more body arrives meanwhile, then
    // it drops the payload unread and answers; the rest of the body and a second request follow
    for (n, plan) in [("drops", PayloadPlan::DropAtStart), ("reads", PayloadPlan::ReadAllThenRespond)] {
        add(&format!("paused-upload-then-{n}"), vec![RequestSpec::new("POST", 0).chunked((0..10).map(|i| ChunkSpec::plain(&data(10_000, i))).collect()), RequestSpec::new("GET", 1)],
            vec![ok_bytes().until(500).plan(plan.clone()), ok_bytes()], &|s| {
            let st = s.stream();
            let he = st.spans[0].1;
            let end0 = st.spans[0].2;
            s.segments = vec![
                Segment { when: When::Start, from: 0, to: he + 45_000 },
                Segment { when: When::At(250), from: he + 45_000, to: he + 60_000 },
                Segment { when: When::At(750), from: he + 60_000, to: end0 - 3 },
                Segment { when: When::At(1000), from: end0 - 3, to: st.bytes.len() },
            ];
            s.env.horizon_ms = 1500;
            s.env.budgets = vec![("read", 20), ("write", 10), ("flush", 6), ("env", 30), ("envq", 10), ("shutdown", 2)];
        });
    }
    // request bodies
    add("post-cl-readall", vec![RequestSpec::new("POST", 0).cl(&data(64, 1))], vec![ok_bytes()], &nop);
    add("post-chunked-readall", vec![RequestSpec::new("POST", 0).chunked(vec![ChunkSpec::plain(&data(10, 1)), ChunkSpec::plain(&data(7, 2))])], vec![ok_bytes()], &nop);
    add("post-cl-slow-reader", vec![RequestSpec::new("POST", 0).cl(&data(100_000, 1))], vec![ok_bytes().plan(PayloadPlan::ReadAllSlowlyThenRespond)], &|s| {
        s.env.budgets = vec![("read", 30), ("write", 10), ("flush", 6), ("env", 40), ("envq", 10), ("shutdown", 2)];
    });
    add("post-chunked-slow-reader", vec![RequestSpec::new("POST", 0).chunked((0..8).map(|i| ChunkSpec::plain(&data(9_000, i))).collect())], vec![ok_bytes().plan(PayloadPlan::ReadAllSlowlyThenRespond)], &|s| {
        s.env.budgets = vec![("read", 30), ("write", 10), ("flush", 6), ("env", 40), ("envq", 10), ("shutdown", 2)];
    });
    add("post-cl-external-reader", vec![RequestSpec::new("POST", 0).cl(&data(100_000, 1))], vec![ok_bytes().plan(PayloadPlan::ExternalReaderThenRespond)], &|s| {
        s.env.budgets = vec![("read", 30), ("write", 10), ("flush", 6), ("env", 40), ("envq", 10), ("shutdown", 2)];
    });
    add("post-chunked-external-reader", vec![RequestSpec::new("POST", 0).chunked((0..3).map(|i| ChunkSpec::plain(&data(20_000, i))).collect())], vec![ok_bytes().plan(PayloadPlan::ExternalReaderThenRespond)], &|s| {
        s.env.budgets = vec![("read", 30), ("write", 10), ("flush", 6), ("env", 40), ("envq", 10), ("shutdown", 2)];
    });
    add("post-small-external-reader", vec![RequestSpec::new("POST", 0).cl(&data(40, 1))], vec![ok_bytes().plan(PayloadPlan::ExternalReaderThenRespond)], &nop);
    add("post-small-respond-with-external-reader", vec![RequestSpec::new("POST", 0).cl(&data(40, 1)), RequestSpec::new("GET", 1)], vec![ok_bytes().plan(PayloadPlan::RespondWithExternalReader), ok_bytes()], &nop);
    add("post-small-external-reader-body-later", vec![RequestSpec::new("POST", 0).cl(&data(40, 1))], vec![ok_bytes().plan(PayloadPlan::ExternalReaderThenRespond)], &|s| {
        let he = s.stream().spans[0].1;
        let len = s.stream().bytes.len();
        s.segments = vec![Segment { when: When::Start, from: 0, to: he + 3 }, Segment { when: When::Quiescent, from: he + 3, to: len }];
    });
    add("post-chunked-external-reader-terminator-later", vec![RequestSpec::new("POST", 0).chunked(vec![ChunkSpec::plain(&data(10, 1)), ChunkSpec::plain(&data(7, 2))])], vec![ok_bytes().plan(PayloadPlan::ExternalReaderThenRespond)], &|s| {
        let len = s.stream().bytes.len();
        s.segments = vec![Segment { when: When::Start, from: 0, to: len - 5 }, Segment { when: When::Quiescent, from: len - 5, to: len }];
    });
    add("post-cl-external-reader-body-never", vec![RequestSpec::new("POST", 0).cl(&data(40, 1))], vec![ok_bytes().plan(PayloadPlan::ExternalReaderThenRespond)], &|s| {
        let he = s.stream().spans[0].1;
        s.segments = vec![Segment { when: When::Start, from: 0, to: he + 3 }];
    });
    add("post-cl-drop", vec![RequestSpec::new("POST", 0).cl(&data(64, 1))], vec![ok_bytes().plan(PayloadPlan::DropAtStart)], &nop);
    add("post-chunked-drop", vec![RequestSpec::new("POST", 0).chunked(vec![ChunkSpec::plain(&data(10, 1)), ChunkSpec::plain(&data(7, 2))])], vec![ok_bytes().plan(PayloadPlan::DropAtStart)], &nop);
    add("post-chunked-drop-big", vec![RequestSpec::new("POST", 0).chunked((0..6).map(|i| ChunkSpec::plain(&data(30_000, i))).collect())], vec![ok_bytes().plan(PayloadPlan::DropAtStart)], &|s| {
        s.env.budgets = vec![("read", 30), ("write", 10), ("flush", 6), ("env", 40), ("envq", 10), ("shutdown", 2)];
    });
    add("post-cl-readfirst-drop", vec![RequestSpec::new("POST", 0).cl(&data(64, 1))], vec![ok_bytes().plan(PayloadPlan::ReadFirstThenRespondDrop)], &nop);
    add("post-cl-echo-in-body", vec![RequestSpec::new("POST", 0).cl(&data(64, 1))], vec![ok_bytes().plan(PayloadPlan::RespondThenReadAllInBody)], &nop);
    add("post-cl-hold-until-body-done", vec![RequestSpec::new("POST", 0).cl(&data(64, 1))], vec![big_stream(10, 3).plan(PayloadPlan::HoldUnreadUntilBodyDone)], &nop);
    add("post-expect", vec![RequestSpec::new("POST", 0).cl(&data(20, 1)).expect()], vec![ok_bytes()], &nop);
    add("post-body-later", vec![RequestSpec::new("POST", 0).cl(&data(64, 1))], vec![ok_bytes()], &|s| {
        let he = s.stream().spans[0].1;
        let len = s.stream().bytes.len();
        s.segments = vec![Segment { when: When::Start, from: 0, to: he + 3 }, Segment { when: When::Quiescent, from: he + 3, to: len }];
    });
    add("post-body-never", vec![RequestSpec::new("POST", 0).cl(&data(64, 1))], vec![ok_bytes()], &|s| {
        let he = s.stream().spans[0].1;
        s.segments = vec![Segment { when: When::Start, from: 0, to: he + 3 }];
    });
    // pipelining
    add("pipe-2", vec![RequestSpec::new("GET", 0), RequestSpec::new("GET", 1)], vec![ok_bytes().pend(1), ok_bytes()], &nop);
    add("pipe-3-mixed", vec![RequestSpec::new("GET", 0), RequestSpec::new("POST", 1).cl(&data(30, 1)), RequestSpec::new("HEAD", 2)],
        vec![ok_bytes().pend(1), big_stream(10, 2), ok_bytes()], &nop);
    add("pipe-2-second-later", vec![RequestSpec::new("GET", 0), RequestSpec::new("GET", 1)], vec![ok_bytes(), ok_bytes()], &|s| {
        let end0 = s.stream().spans[0].2;
        let len = s.stream().bytes.len();
        s.segments = vec![Segment { when: When::Start, from: 0, to: end0 }, Segment { when: When::Quiescent, from: end0, to: len }];
    });
    add("pipe-20", (0..20).map(|i| RequestSpec::new("GET", i)).collect(), (0..20).map(|i| if i == 0 { ok_bytes().pend(1) } else { ok_bytes() }).collect(), &|s| {
        s.env.budgets = vec![("read", 10), ("write", 20), ("flush", 10), ("env", 40), ("envq", 10), ("shutdown", 2)];
    });
    // peer half-close anywhere
    add("fin-anytime-get", vec![RequestSpec::new("GET", 0)], vec![ok_bytes().pend(1)], &|s| s.fin = FinPlan::Anytime);
    add("fin-anytime-post", vec![RequestSpec::new("POST", 0).cl(&data(64, 1))], vec![big_stream(10, 3)], &|s| s.fin = FinPlan::Anytime);
    add("fin-anytime-nohalf", vec![RequestSpec::new("GET", 0), RequestSpec::new("GET", 1)], vec![ok_bytes().pend(1), ok_bytes()], &|s| {
        s.fin = FinPlan::Anytime;
        s.config.half_closed = false;
    });
    // half-closed connections not allowed and the handler never completes (long poll): the peer's
    // FIN alone must bring the connection down — nothing else will ever wake the task
    add("fin-nohalf-handler-never-completes", vec![RequestSpec::new("GET", 0)], vec![ok_bytes().pend(1)], &|s| {
        s.fin = FinPlan::Anytime;
        s.config.half_closed = false;
        s.env.hold_gates = true;
    });
    add("fin-nohalf-handler-never-completes-pipelined", vec![RequestSpec::new("GET", 0), RequestSpec::new("GET", 1)], vec![ok_bytes().pend(1), ok_bytes()], &|s| {
        s.fin = FinPlan::Anytime;
        s.config.half_closed = false;
        s.env.hold_gates = true;
    });
    // more pipelined requests in one segment than the dispatcher queues (16), the peer stays
    for n in [18usize, 34] {
        add(&format!("pipe-{n}-peer-stays"), (0..n).map(|i| RequestSpec::new("GET", i)).collect(), (0..n).map(|i| if i == 0 { ok_bytes().pend(1) } else { ok_bytes() }).collect(), &|s| {
            s.fin = FinPlan::Never;
            s.env.budgets = vec![("read", 10), ("write", 20), ("flush", 10), ("env", 40), ("envq", 10), ("shutdown", 2)];
        });
    }
    // an upgrade service is configured and the (last) request asks for an upgrade: everything
    // written for earlier responses must reach the socket, in order, before the 101
    let upg = |i: usize| RequestSpec::new("GET", i).conn("upgrade").header("upgrade", "websocket");
    add("upgrade-alone", vec![upg(0)], vec![ok_bytes()], &|s| s.config.upgrade = true);
    add("upgrade-after-get", vec![RequestSpec::new("GET", 0), upg(1)], vec![ok_bytes(), ok_bytes()], &|s| s.config.upgrade = true);
    add("upgrade-after-pending-get", vec![RequestSpec::new("GET", 0), upg(1)], vec![ok_bytes().pend(1), ok_bytes()], &|s| s.config.upgrade = true);
    add("upgrade-after-large-get", vec![RequestSpec::new("GET", 0), upg(1)], vec![HandlerProgram::ok(BodySpec::Bytes(data(70_000, 3))), ok_bytes()], &|s| s.config.upgrade = true);
    add("upgrade-after-streaming-get", vec![RequestSpec::new("GET", 0), upg(1)], vec![HandlerProgram::ok(BodySpec::BodyStream(vec![Chunk::Data(b"he".to_vec()), Chunk::Pending, Chunk::Data(b"llo".to_vec())])), ok_bytes()], &|s| s.config.upgrade = true);
    add("upgrade-requested-but-no-upgrade-service", vec![RequestSpec::new("GET", 0), upg(1)], vec![ok_bytes(), ok_bytes()], &nop);
    // an unfinished head of exactly the read-buffer limit (and one more byte): the read gate and
    // the decoder's limit must agree, otherwise the task spins on its own wake-ups or stalls
    for (n, len) in [("limit", 131_072usize), ("limit+1", 131_073)] {
        add(&format!("unfinished-head-at-{n}-peer-stays"), vec![RequestSpec::new("GET", 0)], vec![ok_bytes()], &|s| {
            let mut tail = b"GET /1 HTTP/1.1\r\nx-endless: ".to_vec();
            tail.resize(len, b'a');
            s.tail = tail;
            s.fin = FinPlan::Never;
            s.env.budgets = vec![("read", 12), ("write", 8), ("flush", 4), ("env", 16), ("envq", 6), ("shutdown", 2)];
        });
    }
    // early response + linger
    add("early-response-linger", vec![RequestSpec::new("POST", 0).cl(&data(64, 1))], vec![ok_bytes().plan(PayloadPlan::HoldUnreadUntilBodyDone)], &|s| {
        s.config.disconnect_timeout_ms = 1000;
        s.env.horizon_ms = 2500;
        let he = s.stream().spans[0].1;
        let len = s.stream().bytes.len();
        s.segments = vec![Segment { when: When::Start, from: 0, to: he + 3 }, Segment { when: When::Quiescent, from: he + 3, to: len }];
    });
    add("early-response-nolinger", vec![RequestSpec::new("POST", 0).cl(&data(64, 1))], vec![ok_bytes().plan(PayloadPlan::DropAtStart)], &|s| {
        let he = s.stream().spans[0].1;
        let len = s.stream().bytes.len();
        s.segments = vec![Segment { when: When::Start, from: 0, to: he + 3 }, Segment { when: When::Quiescent, from: he + 3, to: len }];
    });
    add("ka-disabled", vec![RequestSpec::new("GET", 0)], vec![ok_bytes()], &|s| s.config.keep_alive = Ka::Disabled);
    add("malformed", vec![RequestSpec::new("POST", 0).malformed(Malformed::ClAndTe)], vec![ok_bytes()], &nop);
    // more than 128 KiB of input: the full-read-buffer branch of read_available
    add("body-300k-pausing-reader", vec![RequestSpec::new("POST", 0).cl(&data(300_000, 5))], vec![ok_bytes().plan(PayloadPlan::ReadAllSlowlyThenRespond)], &|s| {
        s.env.budgets = vec![("read", 16), ("write", 8), ("flush", 4), ("env", 24), ("envq", 8), ("shutdown", 2)];
    });
    add("body-300k-external-reader", vec![RequestSpec::new("POST", 0).cl(&data(300_000, 5))], vec![ok_bytes().plan(PayloadPlan::ExternalReaderThenRespond)], &|s| {
        s.env.budgets = vec![("read", 16), ("write", 8), ("flush", 4), ("env", 24), ("envq", 8), ("shutdown", 2)];
    });
    add("body-300k-chunked-external-reader", vec![RequestSpec::new("POST", 0).chunked((0..10).map(|i| ChunkSpec::plain(&data(30_000, i))).collect())], vec![ok_bytes().plan(PayloadPlan::RespondWithExternalReader)], &|s| {
        s.env.budgets = vec![("read", 16), ("write", 8), ("flush", 4), ("env", 24), ("envq", 8), ("shutdown", 2)];
    });
    add("pipe-9000", (0..9000).map(|i| RequestSpec::new("GET", i)).collect(), (0..9000).map(|i| if i == 0 { HandlerProgram::ok(BodySpec::Empty).pend(1) } else { HandlerProgram::ok(BodySpec::Empty) }).collect(), &|s| {
        s.env.budgets = vec![("read", 8), ("write", 8), ("flush", 4), ("env", 12), ("envq", 6), ("shutdown", 2)];
    });
    out
}

pub fn bound(sc: &Scenario, tier: &str) -> u32 {
    let heavy = matches!(sc.name.as_str(), "pipe-9000" | "body-300k-pausing-reader" | "body-300k-external-reader" | "body-300k-chunked-external-reader" | "post-cl-slow-reader" | "post-chunked-slow-reader" | "post-cl-external-reader" | "post-chunked-external-reader" | "post-chunked-drop-big" | "get-large-bytes" | "get-large-stream");
    match (tier, heavy) {
        ("thorough", true) => 2,
        ("thorough", false) => 3,
        (_, true) => 1,
        (_, false) => 2,
    }
}
