use serde::{Deserialize, Serialize};
use serde_json::{json, Map, Value};
use std::collections::BTreeMap;
use std::path::PathBuf;

pub const VERIF_ROOT: &str = "/verif";

/// Where evidence and replay files go. `VERIF_OUT` redirects them (used when a check is run
/// against a scratch copy of the repository, so that committed evidence is not overwritten).
pub fn out_root() -> String {
    std::env::var("VERIF_OUT").unwrap_or_else(|_| VERIF_ROOT.to_string())
}

/// One failed oracle clause on one explored case.
#[derive(Clone, Debug, Serialize, Deserialize)]
pub struct Violation {
    pub property: String,
    /// oracle clause id as in DESIGN.md §4, e.g. "c"
    pub clause: String,
    /// deterministic classification of *what* fails (known-finding key); never contains
    /// run-dependent data
    pub signature: String,
    /// human-readable explanation
    pub what: String,
    /// everything needed to re-execute exactly this case without the explorer
    pub replay: Value,
    /// ordering key: smaller = simpler counterexample (deviations, then length)
    pub weight: u64,
}

#[derive(Clone, Debug, Serialize, Deserialize)]
pub struct KnownFinding {
    pub property: String,
    pub clause: String,
    pub signature: String,
    /// "known" or "fixed"
    pub status: String,
    #[serde(default)]
    pub what: String,
    #[serde(default)]
    pub commit: Option<String>,
    #[serde(default)]
    pub replay: Option<String>,
    #[serde(default)]
    pub line: Option<String>,
}

#[derive(Clone, Debug, Default, Serialize, Deserialize)]
pub struct KnownFindings {
    pub findings: Vec<KnownFinding>,
}

impl KnownFindings {
    pub fn load() -> Self {
        // one committed file; never written at run time
        let mut all = KnownFindings::default();
        let p = format!("{VERIF_ROOT}/known_findings.json");
        if let Ok(s) = std::fs::read_to_string(&p) {
            match serde_json::from_str::<KnownFindings>(&s) {
                Ok(k) => all.findings.extend(k.findings),
                Err(e) => {
                    eprintln!("MACHINERY: cannot parse {p}: {e}");
                    std::process::exit(2);
                }
            }
        }
        all
    }
    pub fn is_known(&self, v: &Violation) -> Option<&KnownFinding> {
        self.findings.iter().find(|k| {
            k.status == "known"
                && k.property == v.property
                && k.clause == v.clause
                && k.signature == v.signature
        })
    }
}

/// Evidence file writer (EVIDENCE.schema.json).
#[derive(Clone, Debug)]
pub struct Evidence {
    pub property_id: String,
    pub tier: String,
    pub seed: i64,
    pub level: String,
    pub coverage: Map<String, Value>,
    pub assumptions: Vec<String>,
    pub wall_s: f64,
    pub violations: i64,
}

impl Evidence {
    pub fn new(property_id: &str, tier: &str, level: &str) -> Self {
        let seed = std::env::var("VERIF_SEED").ok().and_then(|s| s.parse().ok()).unwrap_or(0);
        Evidence {
            property_id: property_id.into(),
            tier: tier.into(),
            seed,
            level: level.into(),
            coverage: Map::new(),
            assumptions: vec![],
            wall_s: 0.0,
            violations: 0,
        }
    }
    pub fn set(&mut self, k: &str, v: impl Into<Value>) -> &mut Self {
        self.coverage.insert(k.into(), v.into());
        self
    }
    pub fn assume(&mut self, s: &str) -> &mut Self {
        self.assumptions.push(s.into());
        self
    }
    pub fn write(&self) {
        let dir = format!("{}/evidence", out_root());
        let _ = std::fs::create_dir_all(&dir);
        let v = json!({
            "property_id": self.property_id,
            "tier": self.tier,
            "seed": self.seed,
            "level": self.level,
            "coverage": Value::Object(self.coverage.clone()),
            "assumptions": self.assumptions,
            "wall_s": self.wall_s,
            "violations": self.violations,
        });
        let p = format!("{dir}/{}.json", self.property_id);
        if let Err(e) = std::fs::write(&p, serde_json::to_string_pretty(&v).unwrap() + "\n") {
            eprintln!("MACHINERY: cannot write {p}: {e}");
            std::process::exit(2);
        }
    }
}

/// Collects violations from a run, keeps the simplest per (clause, signature), compares with the
/// known-findings file, writes replay files and decides the exit code.
pub struct Reporter {
    pub property: String,
    known: KnownFindings,
    /// (clause, signature) -> simplest violation
    by_sig: BTreeMap<(String, String), Violation>,
    pub total_violating_cases: u64,
}

impl Reporter {
    pub fn new(property: &str) -> Self {
        Reporter {
            property: property.into(),
            known: KnownFindings::load(),
            by_sig: BTreeMap::new(),
            total_violating_cases: 0,
        }
    }

    pub fn add(&mut self, v: Violation) {
        self.total_violating_cases += 1;
        let key = (v.clause.clone(), v.signature.clone());
        match self.by_sig.get(&key) {
            Some(old) if old.weight <= v.weight => {}
            _ => {
                self.by_sig.insert(key, v);
            }
        }
    }

    pub fn add_all(&mut self, vs: impl IntoIterator<Item = Violation>) {
        for v in vs {
            self.add(v);
        }
    }

    pub fn unknown_count(&self) -> usize {
        self.by_sig.values().filter(|v| self.known.is_known(v).is_none()).count()
    }

    pub fn known_count(&self) -> usize {
        self.by_sig.values().filter(|v| self.known.is_known(v).is_some()).count()
    }

    pub fn distinct(&self) -> usize {
        self.by_sig.len()
    }

    /// Print KNOWN-FINDING / VIOLATION lines, write replay files, return the exit code (0 or 1).
    pub fn finish(&self) -> i32 {
        let mut code = 0;
        for v in self.by_sig.values() {
            if let Some(k) = self.known.is_known(v) {
                println!(
                    "KNOWN-FINDING: property={} clause={} signature={} {}",
                    v.property,
                    v.clause,
                    v.signature,
                    if k.what.is_empty() { &v.what } else { &k.what }
                );
            } else {
                let path = write_replay(v);
                println!("VIOLATION property={} replay={}", v.property, path.display());
                println!("  clause={} signature={}", v.clause, v.signature);
                println!("  {}", v.what);
                code = 1;
            }
        }
        code
    }

    pub fn summaries(&self) -> Vec<Value> {
        self.by_sig
            .values()
            .map(|v| {
                json!({"clause": v.clause, "signature": v.signature, "what": v.what,
                       "known": self.known.is_known(v).is_some()})
            })
            .collect()
    }
}

pub fn write_replay(v: &Violation) -> PathBuf {
    let dir = PathBuf::from(format!("{}/replays/{}", out_root(), v.property));
    let _ = std::fs::create_dir_all(&dir);
    let body = json!({
        "property": v.property,
        "clause": v.clause,
        "signature": v.signature,
        "what": v.what,
        "replay": v.replay,
    });
    let text = serde_json::to_string_pretty(&body).unwrap() + "\n";
    let h = crate::fnv_str(&format!("{}|{}|{}", v.clause, v.signature, v.replay));
    let path = dir.join(format!("{}-{:016x}.json", sanitize(&v.clause), h));
    if let Err(e) = std::fs::write(&path, text) {
        eprintln!("MACHINERY: cannot write {}: {e}", path.display());
        std::process::exit(2);
    }
    path
}

fn sanitize(s: &str) -> String {
    s.chars().map(|c| if c.is_ascii_alphanumeric() { c } else { '_' }).collect()
}

pub fn read_replay(path: &str) -> Value {
    let s = std::fs::read_to_string(path).unwrap_or_else(|e| {
        eprintln!("MACHINERY: cannot read replay {path}: {e}");
        std::process::exit(2)
    });
    let v: Value = serde_json::from_str(&s).unwrap_or_else(|e| {
        eprintln!("MACHINERY: cannot parse replay {path}: {e}");
        std::process::exit(2)
    });
    v
}
