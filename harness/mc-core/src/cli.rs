//! Tiny argument parser shared by the engines: `<engine> <PROPERTY> [--tier quick|thorough] [--replay <file>]`.

pub struct Args {
    pub property: String,
    pub tier: String,
    pub replay: Option<String>,
    pub wall_s: Option<u64>,
}

pub fn parse() -> Args {
    let mut it = std::env::args().skip(1);
    let mut property = String::new();
    let mut tier = std::env::var("VERIF_TIER").unwrap_or_else(|_| "quick".into());
    let mut replay = None;
    let mut wall_s = std::env::var("VERIF_WALL_S").ok().and_then(|s| s.parse().ok());
    while let Some(a) = it.next() {
        match a.as_str() {
            "--tier" => tier = it.next().unwrap_or_default(),
            "--replay" => replay = it.next(),
            "--wall" => wall_s = it.next().and_then(|s| s.parse().ok()),
            x if property.is_empty() => property = x.to_string(),
            x => {
                eprintln!("MACHINERY: unexpected argument {x}");
                std::process::exit(2);
            }
        }
    }
    if tier != "quick" && tier != "thorough" {
        eprintln!("MACHINERY: tier must be quick or thorough");
        std::process::exit(2);
    }
    if property.is_empty() {
        eprintln!("usage: <engine> <PROPERTY> [--tier quick|thorough] [--replay file]");
        std::process::exit(2);
    }
    Args { property, tier, replay, wall_s }
}

pub fn threads() -> usize {
    std::env::var("VERIF_THREADS")
        .ok()
        .and_then(|s| s.parse().ok())
        .unwrap_or_else(|| std::thread::available_parallelism().map(|n| n.get()).unwrap_or(8).min(16))
}
