//! Explicit-state breadth-first search with canonical keys (DESIGN.md §1.3).
//!
//! The model's `step` applies one action to a *real* object state (cloned or rebuilt by the
//! engine) and evaluates the oracle on that transition. States are deduplicated by `key`.

use std::collections::{HashMap, VecDeque};
use std::fmt::Debug;
use std::hash::Hash;
use std::time::Instant;

pub struct StepErr {
    pub clause: String,
    pub signature: String,
    pub what: String,
}

pub trait Model {
    type State;
    type Key: Hash + Eq;
    type Action: Clone + Debug;
    fn key(&self, s: &Self::State) -> Self::Key;
    fn actions(&self, s: &Self::State) -> Vec<Self::Action>;
    /// `path` is the action sequence that reached `s` from the initial state.
    /// Ok(None) = action disabled / terminal.
    fn step(
        &self,
        s: &Self::State,
        a: &Self::Action,
        path: &[Self::Action],
    ) -> Result<Option<Self::State>, StepErr>;
}

#[derive(Default, Debug, Clone)]
pub struct BfsStats {
    pub states: u64,
    pub transitions: u64,
    pub max_depth: u32,
    pub capped: bool,
    pub terminal_states: u64,
}

pub struct BfsViolation<A> {
    pub err: StepErr,
    pub path: Vec<A>,
}

/// Search to a fixpoint (or until `max_states` / `deadline`). Returns on the first violation per
/// distinct (clause, signature) — the search continues so that several distinct ones are found —
/// BFS order makes each the shortest for its signature.
pub fn bfs<M: Model>(
    m: &M,
    init: M::State,
    max_states: u64,
    max_depth: u32,
    deadline: Option<Instant>,
) -> (BfsStats, Vec<BfsViolation<M::Action>>) {
    let mut stats = BfsStats::default();
    let mut viol: Vec<BfsViolation<M::Action>> = vec![];
    // parent pointers for path reconstruction
    let mut parents: Vec<(usize, Option<M::Action>)> = vec![(usize::MAX, None)];
    let mut seen: HashMap<M::Key, usize> = HashMap::new();
    seen.insert(m.key(&init), 0);
    let mut q: VecDeque<(usize, u32, M::State)> = VecDeque::new();
    q.push_back((0, 0, init));
    stats.states = 1;
    let path_of = |parents: &Vec<(usize, Option<M::Action>)>, mut i: usize| {
        let mut p = vec![];
        while i != usize::MAX {
            if let Some(a) = &parents[i].1 {
                p.push(a.clone());
            }
            i = parents[i].0;
        }
        p.reverse();
        p
    };
    while let Some((idx, depth, st)) = q.pop_front() {
        stats.max_depth = stats.max_depth.max(depth);
        if let Some(d) = deadline {
            if Instant::now() > d {
                stats.capped = true;
                break;
            }
        }
        let acts = m.actions(&st);
        if acts.is_empty() {
            stats.terminal_states += 1;
        }
        if depth >= max_depth {
            if !acts.is_empty() {
                stats.capped = true;
            }
            continue;
        }
        let path = path_of(&parents, idx);
        for a in acts {
            match m.step(&st, &a, &path) {
                Ok(None) => {}
                Ok(Some(ns)) => {
                    stats.transitions += 1;
                    let k = m.key(&ns);
                    if !seen.contains_key(&k) {
                        if stats.states >= max_states {
                            stats.capped = true;
                            continue;
                        }
                        let ni = parents.len();
                        parents.push((idx, Some(a.clone())));
                        seen.insert(k, ni);
                        stats.states += 1;
                        q.push_back((ni, depth + 1, ns));
                    }
                }
                Err(e) => {
                    stats.transitions += 1;
                    if !viol.iter().any(|v| v.err.clause == e.clause && v.err.signature == e.signature) {
                        let mut p = path.clone();
                        p.push(a.clone());
                        viol.push(BfsViolation { err: e, path: p });
                    }
                }
            }
        }
    }
    (stats, viol)
}
