use std::sync::atomic::{AtomicUsize, Ordering};
use std::sync::Arc;
use std::task::{Wake, Waker};

/// A waker that only counts. The executors poll a future only when its counter moved.
#[derive(Default)]
pub struct CountWake(pub AtomicUsize);

impl Wake for CountWake {
    fn wake(self: Arc<Self>) {
        self.0.fetch_add(1, Ordering::SeqCst);
    }
    fn wake_by_ref(self: &Arc<Self>) {
        self.0.fetch_add(1, Ordering::SeqCst);
    }
}

#[derive(Clone)]
pub struct WakeCounter {
    inner: Arc<CountWake>,
    seen: usize,
}

impl Default for WakeCounter {
    fn default() -> Self {
        Self::new()
    }
}

impl WakeCounter {
    pub fn new() -> Self {
        WakeCounter { inner: Arc::new(CountWake::default()), seen: 0 }
    }
    pub fn waker(&self) -> Waker {
        Waker::from(self.inner.clone())
    }
    pub fn count(&self) -> usize {
        self.inner.0.load(Ordering::SeqCst)
    }
    /// true if woken since the last `take`
    pub fn is_woken(&self) -> bool {
        self.count() != self.seen
    }
    /// acknowledge all wake-ups so far
    pub fn take(&mut self) -> bool {
        let c = self.count();
        let w = c != self.seen;
        self.seen = c;
        w
    }
}
