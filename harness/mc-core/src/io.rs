//! Scripted in-memory socket. Every answer of `poll_read` / `poll_write` / `poll_flush` /
//! `poll_shutdown` is a choice point of the execution's `Chooser` (DESIGN.md §1.2).

use crate::chooser::Chooser;
use std::cell::RefCell;
use std::io;
use std::pin::Pin;
use std::rc::Rc;
use std::task::{Context, Poll, Waker};
use tokio::io::{AsyncRead, AsyncWrite, ReadBuf};

#[derive(Clone, Debug)]
pub struct IoOpts {
    /// offer Pending / short reads
    pub read_alts: bool,
    /// offer abrupt EOF (truncation) and ConnectionReset on reads
    pub read_faults: bool,
    pub write_alts: bool,
    pub flush_alts: bool,
    pub shutdown_alts: bool,
    /// every byte offset is a cut point (otherwise only the structural ones)
    pub every_offset: bool,
    /// the transport buffers internally (like a TLS stream): bytes accepted by poll_write reach
    /// the wire (`out`) only when a later poll_flush / poll_shutdown completes
    pub buffered: bool,
}

impl Default for IoOpts {
    fn default() -> Self {
        IoOpts {
            read_alts: true,
            read_faults: false,
            write_alts: true,
            flush_alts: true,
            shutdown_alts: true,
            every_offset: false,
            buffered: false,
        }
    }
}

#[derive(Clone, Copy, Debug, PartialEq, Eq)]
pub enum WriteMode {
    /// answers are choice points (default: accept everything)
    Normal,
    /// the socket accepts nothing until the harness switches back
    Stalled,
}

pub struct IoState {
    pub chooser: Rc<RefCell<Chooser>>,
    pub opts: IoOpts,
    /// bytes that have arrived at the socket
    pub inbox: Vec<u8>,
    pub rpos: usize,
    /// structural cut points (absolute offsets into the whole inbound stream)
    pub cuts: Vec<usize>,
    /// peer FIN arrived: once the inbox is drained reads return Ok(0)
    pub read_eof: bool,
    /// connection reset: reads and writes fail
    pub reset: bool,
    pub read_waker: Option<Waker>,
    /// read answered Pending although data was available (needs a `readable` event)
    pub read_parked_by_choice: bool,
    pub out: Vec<u8>,
    /// bytes accepted by poll_write of a buffered transport and not flushed yet
    pub staged: Vec<u8>,
    /// (offset in `out`, len, stamp) per accepted write
    pub writes: Vec<(usize, usize, u64)>,
    pub stamp: u64,
    pub write_waker: Option<Waker>,
    pub write_mode: WriteMode,
    pub shutdown_never: bool,
    pub shutdown_calls: u32,
    /// stamp of the first poll_shutdown call
    pub shutdown_first_stamp: Option<u64>,
    pub shutdown_done: bool,
    pub flush_calls: u32,
    pub read_calls: u32,
    pub write_calls: u32,
    /// writes attempted after shutdown completed / errors returned
    pub write_after_shutdown: u32,
    pub dropped: bool,
    pub eof_delivered: bool,
    /// fault injected by a read choice
    pub fault: Option<&'static str>,
}

impl IoState {
    pub fn new(chooser: Rc<RefCell<Chooser>>, opts: IoOpts) -> Self {
        IoState {
            chooser,
            opts,
            inbox: Vec::new(),
            rpos: 0,
            cuts: Vec::new(),
            read_eof: false,
            reset: false,
            read_waker: None,
            read_parked_by_choice: false,
            out: Vec::new(),
            staged: Vec::new(),
            writes: Vec::new(),
            stamp: 0,
            write_waker: None,
            write_mode: WriteMode::Normal,
            shutdown_never: false,
            shutdown_calls: 0,
            shutdown_first_stamp: None,
            shutdown_done: false,
            flush_calls: 0,
            read_calls: 0,
            write_calls: 0,
            write_after_shutdown: 0,
            dropped: false,
            eof_delivered: false,
            fault: None,
        }
    }

    pub fn unread(&self) -> usize {
        self.inbox.len() - self.rpos
    }

    /// Peer sends more bytes; wakes a parked reader.
    pub fn arrive(&mut self, bytes: &[u8]) {
        self.inbox.extend_from_slice(bytes);
        if let Some(w) = self.read_waker.take() {
            self.read_parked_by_choice = false;
            w.wake();
        }
    }

    /// Peer closes its sending side.
    pub fn peer_fin(&mut self) {
        self.read_eof = true;
        if let Some(w) = self.read_waker.take() {
            self.read_parked_by_choice = false;
            w.wake();
        }
    }

    pub fn peer_reset(&mut self) {
        self.reset = true;
        if let Some(w) = self.read_waker.take() {
            w.wake();
        }
        if let Some(w) = self.write_waker.take() {
            w.wake();
        }
    }

    /// environment event: socket readable again
    pub fn fire_readable(&mut self) -> bool {
        self.read_parked_by_choice = false;
        if let Some(w) = self.read_waker.take() {
            w.wake();
            true
        } else {
            false
        }
    }

    /// environment event: socket writable again
    pub fn fire_writable(&mut self) -> bool {
        if let Some(w) = self.write_waker.take() {
            w.wake();
            true
        } else {
            false
        }
    }

    fn flush_staged(&mut self) {
        if !self.staged.is_empty() {
            let off = self.out.len();
            let staged = std::mem::take(&mut self.staged);
            self.out.extend_from_slice(&staged);
            let st = self.stamp;
            self.writes.push((off, staged.len(), st));
        }
    }

    fn next_cut(&self) -> Option<usize> {
        // smallest k with 1 <= k < unread such that rpos + k is a cut
        let rem = self.unread();
        self.cuts
            .iter()
            .filter_map(|&c| c.checked_sub(self.rpos))
            .filter(|&k| k >= 1 && k < rem)
            .min()
    }
}

#[derive(Clone)]
pub struct ScriptIo(pub Rc<RefCell<IoState>>);

impl ScriptIo {
    pub fn new(st: Rc<RefCell<IoState>>) -> Self {
        ScriptIo(st)
    }
}

impl Drop for ScriptIo {
    fn drop(&mut self) {
        // the handle given to the code under test is the only one wrapped in ScriptIo;
        // harness-side access goes through the Rc directly
        if let Ok(mut s) = self.0.try_borrow_mut() {
            s.dropped = true;
        }
    }
}

impl AsyncRead for ScriptIo {
    fn poll_read(
        self: Pin<&mut Self>,
        cx: &mut Context<'_>,
        buf: &mut ReadBuf<'_>,
    ) -> Poll<io::Result<()>> {
        let mut s = self.0.borrow_mut();
        s.read_calls += 1;
        if s.reset {
            return Poll::Ready(Err(io::ErrorKind::ConnectionReset.into()));
        }
        let rem = s.unread();
        if rem == 0 {
            if s.read_eof {
                s.eof_delivered = true;
                return Poll::Ready(Ok(()));
            }
            s.read_waker = Some(cx.waker().clone());
            return Poll::Pending;
        }
        let cap = buf.remaining();
        if cap == 0 {
            return Poll::Ready(Ok(()));
        }
        // options in canonical order
        #[derive(Clone, Copy)]
        enum R {
            All,
            Pending,
            N(usize),
            Eof,
            Reset,
        }
        let mut opts: Vec<R> = vec![R::All];
        if s.opts.read_alts {
            opts.push(R::Pending);
            if rem > 1 {
                opts.push(R::N(1));
            }
            let cut = if s.opts.every_offset { None } else { s.next_cut() };
            if let Some(k) = cut {
                if k > 1 {
                    opts.push(R::N(k));
                }
            }
            let half = rem.div_ceil(2);
            if rem > 3 && Some(half) != cut {
                opts.push(R::N(half));
            }
            if s.opts.every_offset {
                for k in 2..rem.min(cap) {
                    if k != half {
                        opts.push(R::N(k));
                    }
                }
            }
        }
        if s.opts.read_faults {
            opts.push(R::Eof);
            opts.push(R::Reset);
        }
        let pick = s.chooser.borrow_mut().choose("read", opts.len() as u32) as usize;
        match opts[pick] {
            R::All => {
                let k = rem.min(cap);
                let (a, b) = (s.rpos, s.rpos + k);
                buf.put_slice(&s.inbox[a..b]);
                s.rpos = b;
                Poll::Ready(Ok(()))
            }
            R::N(k) => {
                let k = k.min(cap);
                let (a, b) = (s.rpos, s.rpos + k);
                buf.put_slice(&s.inbox[a..b]);
                s.rpos = b;
                Poll::Ready(Ok(()))
            }
            R::Pending => {
                s.read_waker = Some(cx.waker().clone());
                s.read_parked_by_choice = true;
                Poll::Pending
            }
            R::Eof => {
                // the peer vanished here: the rest of the stream never arrives
                let at = s.rpos;
                s.inbox.truncate(at);
                s.read_eof = true;
                s.eof_delivered = true;
                s.fault = Some("eof");
                Poll::Ready(Ok(()))
            }
            R::Reset => {
                s.reset = true;
                s.fault = Some("reset");
                Poll::Ready(Err(io::ErrorKind::ConnectionReset.into()))
            }
        }
    }
}

impl AsyncWrite for ScriptIo {
    fn poll_write(
        self: Pin<&mut Self>,
        cx: &mut Context<'_>,
        buf: &[u8],
    ) -> Poll<io::Result<usize>> {
        let mut s = self.0.borrow_mut();
        s.write_calls += 1;
        if s.reset {
            return Poll::Ready(Err(io::ErrorKind::BrokenPipe.into()));
        }
        if s.shutdown_done {
            s.write_after_shutdown += 1;
            return Poll::Ready(Err(io::ErrorKind::BrokenPipe.into()));
        }
        let n = buf.len();
        if n == 0 {
            return Poll::Ready(Ok(0));
        }
        if s.write_mode == WriteMode::Stalled {
            s.write_waker = Some(cx.waker().clone());
            return Poll::Pending;
        }
        let mut opts: Vec<Option<usize>> = vec![Some(n)];
        if s.opts.write_alts {
            opts.push(None);
            if n > 1 {
                opts.push(Some(1));
            }
            if n > 3 {
                opts.push(Some(n.div_ceil(2)));
            }
        }
        let pick = s.chooser.borrow_mut().choose("write", opts.len() as u32) as usize;
        match opts[pick] {
            Some(k) => {
                if s.opts.buffered {
                    s.staged.extend_from_slice(&buf[..k]);
                } else {
                    let off = s.out.len();
                    s.out.extend_from_slice(&buf[..k]);
                    let st = s.stamp;
                    s.writes.push((off, k, st));
                }
                Poll::Ready(Ok(k))
            }
            None => {
                s.write_waker = Some(cx.waker().clone());
                Poll::Pending
            }
        }
    }

    fn poll_flush(self: Pin<&mut Self>, cx: &mut Context<'_>) -> Poll<io::Result<()>> {
        let mut s = self.0.borrow_mut();
        s.flush_calls += 1;
        if s.reset {
            return Poll::Ready(Err(io::ErrorKind::BrokenPipe.into()));
        }
        if s.write_mode == WriteMode::Stalled {
            s.write_waker = Some(cx.waker().clone());
            return Poll::Pending;
        }
        let n = if s.opts.flush_alts { 2 } else { 1 };
        let pick = s.chooser.borrow_mut().choose("flush", n);
        if pick == 0 {
            s.flush_staged();
            Poll::Ready(Ok(()))
        } else {
            s.write_waker = Some(cx.waker().clone());
            Poll::Pending
        }
    }

    fn poll_shutdown(self: Pin<&mut Self>, cx: &mut Context<'_>) -> Poll<io::Result<()>> {
        let mut s = self.0.borrow_mut();
        s.shutdown_calls += 1;
        if s.shutdown_first_stamp.is_none() {
            s.shutdown_first_stamp = Some(s.stamp);
        }
        if s.reset {
            return Poll::Ready(Err(io::ErrorKind::BrokenPipe.into()));
        }
        if s.shutdown_never {
            s.write_waker = Some(cx.waker().clone());
            return Poll::Pending;
        }
        let n = if s.opts.shutdown_alts { 2 } else { 1 };
        let pick = s.chooser.borrow_mut().choose("shutdown", n);
        if pick == 0 {
            // shutting a buffering transport down flushes it first
            s.flush_staged();
            s.shutdown_done = true;
            Poll::Ready(Ok(()))
        } else {
            s.write_waker = Some(cx.waker().clone());
            Poll::Pending
        }
    }
}

impl actix_rt::net::ActixStream for ScriptIo {
    fn poll_read_ready(&self, cx: &mut Context<'_>) -> Poll<io::Result<actix_rt::net::Ready>> {
        let mut s = self.0.borrow_mut();
        if s.reset || s.unread() > 0 || s.read_eof {
            Poll::Ready(Ok(actix_rt::net::Ready::READABLE))
        } else {
            s.read_waker = Some(cx.waker().clone());
            Poll::Pending
        }
    }
    fn poll_write_ready(&self, _cx: &mut Context<'_>) -> Poll<io::Result<actix_rt::net::Ready>> {
        Poll::Ready(Ok(actix_rt::net::Ready::WRITABLE))
    }
}
