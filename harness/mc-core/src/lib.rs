//! Common machinery for the model-checking engines under /verif/harness.
//!
//! * `chooser`  – recorded/replayed nondeterministic choices with a deviation cost
//! * `explore`  – iterative deviation-bounded stateless exploration (shape S)
//! * `bfs`      – explicit-state breadth-first search with canonical keys (shape E)
//! * `report`   – violations, known findings, replay files, evidence files, exit codes
//! * `io`       – scripted in-memory socket whose every answer is a choice point
//! * `wake`     – counting waker used by the wake-driven executors

pub mod bfs;
pub mod chooser;
pub mod cli;
pub mod explore;
pub mod io;
pub mod report;
pub mod wake;

pub use chooser::{Chooser, Point};
pub use report::{Evidence, Violation};

/// Payload used for panics that mean "the machinery is wrong" (exit 2), as opposed to a verdict.
#[derive(Debug, Clone)]
pub struct MachineryError(pub String);

pub fn machinery(msg: impl Into<String>) -> ! {
    std::panic::panic_any(MachineryError(msg.into()))
}

/// FNV-1a, used for stable (process-independent) hashes of canonical observations.
pub fn fnv(bytes: &[u8]) -> u64 {
    let mut h: u64 = 0xcbf29ce484222325;
    for b in bytes {
        h ^= *b as u64;
        h = h.wrapping_mul(0x100000001b3);
    }
    h
}

pub fn fnv_str(s: &str) -> u64 {
    fnv(s.as_bytes())
}

/// Printable rendering of bytes for logs and replay files.
pub fn show(bytes: &[u8]) -> String {
    let mut s = String::new();
    for &b in bytes {
        match b {
            b'\r' => s.push_str("\\r"),
            b'\n' => s.push_str("\\n"),
            b'\\' => s.push_str("\\\\"),
            0x20..=0x7e => s.push(b as char),
            _ => s.push_str(&format!("\\x{:02x}", b)),
        }
    }
    s
}

/// Like `show` but abbreviates long runs.
pub fn show_short(bytes: &[u8], max: usize) -> String {
    if bytes.len() <= max {
        show(bytes)
    } else {
        format!("{}…[{} bytes total]", show(&bytes[..max]), bytes.len())
    }
}
