//! Iterative deviation-bounded stateless exploration (CHESS-style, DESIGN.md §1.1).
//!
//! A scenario is a deterministic function of a `Chooser`. Level b of the search runs every
//! execution with at most b non-default answers and checks those with exactly b (the others were
//! checked at earlier levels). Levels are completed one after the other, so the first
//! counterexample has the fewest deviations and the reported bound is one that was fully covered.

use crate::chooser::{Chooser, Point};
use crate::report::{Reporter, Violation};
use crate::MachineryError;
use serde_json::{json, Value};
use std::cell::RefCell;
use std::collections::{HashSet, VecDeque};
use std::panic::{catch_unwind, AssertUnwindSafe};
use std::sync::atomic::{AtomicBool, AtomicU64, AtomicUsize, Ordering};
use std::sync::{Condvar, Mutex};
use std::time::{Duration, Instant};

pub struct Outcome {
    /// violations found by the oracle on this execution (`replay` is filled in by the explorer)
    pub violations: Vec<Violation>,
    /// hash of the canonical observation of this execution
    pub class: u64,
    /// non-trivial by the property's own rule
    pub nontrivial: bool,
    /// optional written-out description of the case for the evidence file
    pub sample: Option<Value>,
}

pub trait Scenario: Sync + Send {
    fn name(&self) -> String;
    fn describe(&self) -> Value {
        Value::String(self.name())
    }
    /// deviation bound for this scenario at the given tier bound (allows core sets to go deeper)
    fn run(&self, ch: &mut Chooser) -> Outcome;
}

pub struct Cfg {
    pub wall: Duration,
    pub threads: usize,
    /// stop after the level in which this many distinct unknown violations were collected
    pub max_unknown: usize,
}

impl Default for Cfg {
    fn default() -> Self {
        Cfg {
            wall: Duration::from_secs(50),
            threads: std::thread::available_parallelism().map(|n| n.get()).unwrap_or(8).min(16),
            max_unknown: 12,
        }
    }
}

#[derive(Default, Debug)]
pub struct Stats {
    pub executions: u64,
    pub checked: u64,
    pub choice_points: u64,
    pub max_trace_len: usize,
    /// largest b such that every scenario was fully explored up to min(b, its own bound)
    pub bound_completed: i64,
    pub max_bound_requested: u32,
    pub capped: bool,
    pub classes: HashSet<u64>,
    pub nontrivial_classes: HashSet<u64>,
    pub per_level_checked: Vec<u64>,
    pub samples: Vec<Value>,
    pub budget_hit: u64,
    pub scenarios: usize,
    pub violating_executions: u64,
}

thread_local! {
    static LAST_PANIC: RefCell<Option<(String, String)>> = const { RefCell::new(None) };
}

pub fn install_panic_hook() {
    std::panic::set_hook(Box::new(|info| {
        let loc = info.location().map(|l| format!("{}:{}", l.file(), l.line())).unwrap_or_default();
        let msg = if let Some(s) = info.payload().downcast_ref::<&str>() {
            s.to_string()
        } else if let Some(s) = info.payload().downcast_ref::<String>() {
            s.clone()
        } else if let Some(m) = info.payload().downcast_ref::<MachineryError>() {
            format!("MACHINERY: {}", m.0)
        } else {
            "<non-string panic>".into()
        };
        LAST_PANIC.with(|p| *p.borrow_mut() = Some((loc, msg)));
    }));
}

pub fn take_last_panic() -> Option<(String, String)> {
    LAST_PANIC.with(|p| p.borrow_mut().take())
}

/// Result of running one execution under catch_unwind.
pub enum RunResult {
    Ok(Outcome, Vec<Point>, bool),
    /// a panic raised inside /repo code: (location, message, trace so far is unknown)
    SubjectPanic(String, String),
    Machinery(String),
}

pub fn run_once<S: Scenario + ?Sized>(sc: &S, prefix: &[u32]) -> RunResult {
    let mut ch = Chooser::new(prefix.to_vec());
    let r = catch_unwind(AssertUnwindSafe(|| sc.run(&mut ch)));
    match r {
        Ok(o) => {
            if !ch.prefix_consumed() {
                return RunResult::Machinery(format!(
                    "replay divergence in {}: execution ended after {} choice points, prefix has {}",
                    sc.name(),
                    ch.trace.len(),
                    ch.prefix_len()
                ));
            }
            let bh = ch.budget_hit;
            RunResult::Ok(o, ch.trace, bh)
        }
        Err(p) => {
            let (loc, msg) = take_last_panic().unwrap_or_default();
            if p.downcast_ref::<MachineryError>().is_some() {
                return RunResult::Machinery(msg);
            }
            let scratch = std::env::var("VERIF_REPO").ok();
            if loc.contains("/repo/") || scratch.map(|r| loc.starts_with(&r)).unwrap_or(false) {
                RunResult::SubjectPanic(loc, msg)
            } else {
                RunResult::Machinery(format!("harness panic at {loc}: {msg}"))
            }
        }
    }
}

struct Job {
    sc: usize,
    prefix: Vec<u32>,
    cost: u32,
}

struct Shared<'a, S: Scenario> {
    scenarios: &'a [S],
    bounds: Vec<u32>,
    level: u32,
    property: String,
    queue: Mutex<VecDeque<Job>>,
    cv: Condvar,
    outstanding: AtomicUsize,
    stop: AtomicBool,
    capped: AtomicBool,
    deadline: Instant,
    machinery: Mutex<Option<String>>,
    executions: AtomicU64,
}

#[derive(Default)]
struct Local {
    checked: u64,
    choice_points: u64,
    max_trace_len: usize,
    classes: HashSet<u64>,
    nontrivial: HashSet<u64>,
    samples: Vec<Value>,
    violations: Vec<Violation>,
    budget_hit: u64,
    violating_executions: u64,
}

fn replay_value<S: Scenario>(sc: &S, trace: &[Point]) -> Value {
    json!({
        "scenario": sc.name(),
        "describe": sc.describe(),
        "picks": trace.iter().map(|p| p.pick).collect::<Vec<_>>(),
        "kinds": trace.iter().map(|p| p.kind.clone()).collect::<Vec<_>>(),
        "deviations": trace.iter().enumerate().filter(|(_, p)| p.pick != 0)
            .map(|(i, p)| json!({"at": i, "kind": p.kind, "pick": p.pick, "of": p.n})).collect::<Vec<_>>(),
    })
}

fn sig_set(vs: &[Violation]) -> Vec<(String, String)> {
    let mut s: Vec<_> = vs.iter().map(|v| (v.clause.clone(), v.signature.clone())).collect();
    s.sort();
    s.dedup();
    s
}

fn subtree<S: Scenario>(sh: &Shared<'_, S>, job: Job, loc: &mut Local) {
    if sh.stop.load(Ordering::Relaxed) {
        return;
    }
    if Instant::now() > sh.deadline {
        sh.capped.store(true, Ordering::SeqCst);
        sh.stop.store(true, Ordering::SeqCst);
        return;
    }
    let sc = &sh.scenarios[job.sc];
    sh.executions.fetch_add(1, Ordering::Relaxed);
    let (outcome, trace) = match run_once(sc, &job.prefix) {
        RunResult::Ok(o, t, bh) => {
            if bh {
                loc.budget_hit += 1;
            }
            (Some(o), t)
        }
        RunResult::SubjectPanic(l, m) => {
            // a panic inside the code under test is a violation of whatever is being checked
            let picks: Vec<Point> = job
                .prefix
                .iter()
                .map(|&p| Point { kind: "?".into(), n: 0, pick: p })
                .collect();
            if job.cost == sh.level {
                loc.checked += 1;
                loc.violating_executions += 1;
                loc.violations.push(Violation {
                    property: sh.property.clone(),
                    clause: "panic".into(),
                    signature: format!("panic@{}", l.rsplit("/repo/").next().unwrap_or(&l)),
                    what: format!("code under test panicked at {l}: {m}"),
                    replay: json!({"scenario": sc.name(), "describe": sc.describe(), "picks": job.prefix}),
                    weight: ((job.cost as u64) << 32) | job.prefix.len() as u64,
                });
            }
            let _ = picks;
            return;
        }
        RunResult::Machinery(m) => {
            *sh.machinery.lock().unwrap() = Some(m);
            sh.stop.store(true, Ordering::SeqCst);
            return;
        }
    };
    let outcome = outcome.unwrap();
    if job.cost == sh.level {
        loc.checked += 1;
        loc.choice_points += trace.len() as u64;
        loc.max_trace_len = loc.max_trace_len.max(trace.len());
        loc.classes.insert(outcome.class);
        if outcome.nontrivial {
            loc.nontrivial.insert(outcome.class);
        }
        if let Some(s) = outcome.sample {
            if loc.samples.len() < 2 {
                loc.samples.push(s);
            }
        }
        // determinism: the default schedule of every scenario is run twice
        let need_rerun = job.prefix.is_empty() || !outcome.violations.is_empty();
        if need_rerun {
            let picks: Vec<u32> = trace.iter().map(|p| p.pick).collect();
            match run_once(sc, &picks) {
                RunResult::Ok(o2, t2, _) => {
                    if o2.class != outcome.class
                        || t2 != trace
                        || sig_set(&o2.violations) != sig_set(&outcome.violations)
                    {
                        *sh.machinery.lock().unwrap() = Some(format!(
                            "nondeterminism: scenario {} picks {:?} gave different observations on re-execution (class {:x} vs {:x}, trace len {} vs {}, violations {:?} vs {:?})",
                            sc.name(), picks, outcome.class, o2.class, trace.len(), t2.len(),
                            sig_set(&outcome.violations), sig_set(&o2.violations)
                        ));
                        sh.stop.store(true, Ordering::SeqCst);
                        return;
                    }
                }
                RunResult::SubjectPanic(l, m) => {
                    *sh.machinery.lock().unwrap() =
                        Some(format!("nondeterminism: re-execution panicked at {l}: {m}"));
                    sh.stop.store(true, Ordering::SeqCst);
                    return;
                }
                RunResult::Machinery(m) => {
                    *sh.machinery.lock().unwrap() = Some(m);
                    sh.stop.store(true, Ordering::SeqCst);
                    return;
                }
            }
        }
        if !outcome.violations.is_empty() {
            loc.violating_executions += 1;
            let rv = replay_value(sc, &trace);
            for mut v in outcome.violations {
                v.replay = rv.clone();
                v.weight = ((job.cost as u64) << 32) | trace.len() as u64;
                loc.violations.push(v);
            }
        }
    }
    let limit = sh.bounds[job.sc].min(sh.level);
    if job.cost < limit {
        for i in job.prefix.len()..trace.len() {
            let n = trace[i].n;
            for alt in 1..n {
                let mut p: Vec<u32> = trace[..i].iter().map(|x| x.pick).collect();
                p.push(alt);
                let child = Job { sc: job.sc, prefix: p, cost: job.cost + 1 };
                if job.cost == 0 && sh.level >= 2 {
                    sh.outstanding.fetch_add(1, Ordering::SeqCst);
                    sh.queue.lock().unwrap().push_back(child);
                    sh.cv.notify_one();
                } else {
                    subtree(sh, child, loc);
                }
                if sh.stop.load(Ordering::Relaxed) {
                    return;
                }
            }
        }
    }
}

fn worker<S: Scenario>(sh: &Shared<'_, S>) -> Local {
    let mut loc = Local::default();
    loop {
        let job = {
            let mut q = sh.queue.lock().unwrap();
            loop {
                if let Some(j) = q.pop_front() {
                    break Some(j);
                }
                if sh.outstanding.load(Ordering::SeqCst) == 0 || sh.stop.load(Ordering::SeqCst) {
                    break None;
                }
                let (g, _) = sh.cv.wait_timeout(q, Duration::from_millis(20)).unwrap();
                q = g;
            }
        };
        let Some(job) = job else { break };
        subtree(sh, job, &mut loc);
        sh.outstanding.fetch_sub(1, Ordering::SeqCst);
        sh.cv.notify_all();
    }
    loc
}

/// Explore all scenarios; `bounds[i]` is the deviation bound for scenario i.
pub fn explore<S: Scenario>(
    property: &str,
    scenarios: &[S],
    bounds: &[u32],
    cfg: &Cfg,
    reporter: &mut Reporter,
) -> Stats {
    install_panic_hook();
    assert_eq!(scenarios.len(), bounds.len());
    let start = Instant::now();
    let deadline = start + cfg.wall;
    let max_bound = bounds.iter().copied().max().unwrap_or(0);
    let seed: u64 = std::env::var("VERIF_SEED").ok().and_then(|s| s.parse().ok()).unwrap_or(0);
    let mut stats = Stats {
        bound_completed: -1,
        max_bound_requested: max_bound,
        scenarios: scenarios.len(),
        ..Default::default()
    };
    for level in 0..=max_bound {
        // job order is a seed-dependent rotation; the explored set does not depend on it
        let mut order: Vec<usize> = (0..scenarios.len()).filter(|&i| bounds[i] >= level || level == 0).collect();
        if !order.is_empty() {
            let r = (seed as usize) % order.len();
            order.rotate_left(r);
        }
        if order.is_empty() {
            stats.bound_completed = level as i64;
            continue;
        }
        let sh = Shared {
            scenarios,
            bounds: bounds.to_vec(),
            level,
            property: property.to_string(),
            queue: Mutex::new(order.iter().map(|&i| Job { sc: i, prefix: vec![], cost: 0 }).collect()),
            cv: Condvar::new(),
            outstanding: AtomicUsize::new(order.len()),
            stop: AtomicBool::new(false),
            capped: AtomicBool::new(false),
            deadline,
            machinery: Mutex::new(None),
            executions: AtomicU64::new(0),
        };
        let locals: Vec<Local> = std::thread::scope(|s| {
            let hs: Vec<_> = (0..cfg.threads.max(1))
                .map(|_| {
                    std::thread::Builder::new()
                        .stack_size(64 << 20)
                        .spawn_scoped(s, || worker(&sh))
                        .unwrap()
                })
                .collect();
            hs.into_iter().map(|h| h.join().unwrap()).collect()
        });
        if let Some(m) = sh.machinery.lock().unwrap().take() {
            eprintln!("MACHINERY: {m}");
            std::process::exit(2);
        }
        stats.executions += sh.executions.load(Ordering::SeqCst);
        let mut level_checked = 0;
        for l in locals {
            level_checked += l.checked;
            stats.checked += l.checked;
            stats.choice_points += l.choice_points;
            stats.max_trace_len = stats.max_trace_len.max(l.max_trace_len);
            stats.classes.extend(l.classes);
            stats.nontrivial_classes.extend(l.nontrivial);
            stats.budget_hit += l.budget_hit;
            stats.violating_executions += l.violating_executions;
            for s in l.samples {
                if stats.samples.len() < 6 {
                    stats.samples.push(s);
                }
            }
            reporter.add_all(l.violations);
        }
        stats.per_level_checked.push(level_checked);
        if sh.capped.load(Ordering::SeqCst) {
            stats.capped = true;
            break;
        }
        stats.bound_completed = level as i64;
        if reporter.unknown_count() >= 1 && (reporter.unknown_count() >= cfg.max_unknown || level >= 1) {
            // minimal counterexamples found at this level; deeper levels would only repeat them
            break;
        }
        if reporter.unknown_count() >= 1 {
            break;
        }
    }
    stats
}

/// Re-execute one recorded case (from a replay file) and return its outcome and trace.
pub fn replay<S: Scenario>(scenarios: &[S], replay: &Value) -> (Outcome, Vec<Point>) {
    install_panic_hook();
    let name = replay["scenario"].as_str().unwrap_or_else(|| {
        eprintln!("MACHINERY: replay file has no scenario name");
        std::process::exit(2)
    });
    let sc = scenarios.iter().find(|s| s.name() == name).unwrap_or_else(|| {
        eprintln!("MACHINERY: scenario {name} not found in this engine's scenario list");
        std::process::exit(2)
    });
    let picks: Vec<u32> = replay["picks"]
        .as_array()
        .map(|a| a.iter().map(|x| x.as_u64().unwrap_or(0) as u32).collect())
        .unwrap_or_default();
    match run_once(sc, &picks) {
        RunResult::Ok(o, t, _) => (o, t),
        RunResult::SubjectPanic(l, m) => {
            println!("code under test panicked at {l}: {m}");
            std::process::exit(1)
        }
        RunResult::Machinery(m) => {
            eprintln!("MACHINERY: {m}");
            std::process::exit(2)
        }
    }
}

impl Stats {
    /// Fill the standard exploration keys of an evidence record.
    pub fn fill(&self, ev: &mut crate::report::Evidence, rule: &str) {
        ev.set("evaluations", self.checked);
        ev.set("executions_including_parents", self.executions);
        ev.set("distinct_observation_classes", self.classes.len() as u64);
        ev.set("distinct_nontrivial", self.nontrivial_classes.len() as u64);
        ev.set("rule", rule);
        ev.set("samples", Value::Array(self.samples.clone()));
        ev.set("scenarios", self.scenarios as u64);
        ev.set("choice_points", self.choice_points);
        ev.set("max_choice_points_in_one_execution", self.max_trace_len as u64);
        ev.set("deviation_bound_requested", self.max_bound_requested as u64);
        ev.set("deviation_bound_completed", self.bound_completed);
        ev.set("capped", self.capped);
        ev.set("executions_checked_per_deviation_level", json!(self.per_level_checked));
        ev.set("executions_with_choice_budget_exhausted", self.budget_hit);
        ev.set("exhaustive", !self.capped && self.budget_hit == 0);
    }
}
