use serde::{Deserialize, Serialize};

/// One recorded choice point.
#[derive(Clone, Debug, Serialize, Deserialize, PartialEq, Eq)]
pub struct Point {
    pub kind: String,
    pub n: u32,
    pub pick: u32,
}

/// Source of every nondeterministic answer inside one execution.
///
/// Option 0 is always the default (benign) answer. While a prefix is being replayed the recorded
/// picks are returned; after the prefix every answer is 0. Choice points with a single option are
/// not recorded.
pub struct Chooser {
    prefix: Vec<u32>,
    /// Optional kinds recorded with the prefix (from a replay file); checked when present.
    prefix_kinds: Option<Vec<String>>,
    pub trace: Vec<Point>,
    /// kinds for which no alternatives are offered any more (budget exhausted)
    budget: std::collections::HashMap<&'static str, u32>,
    used: std::collections::HashMap<&'static str, u32>,
    pub budget_hit: bool,
}

impl Chooser {
    pub fn new(prefix: Vec<u32>) -> Self {
        Chooser {
            prefix,
            prefix_kinds: None,
            trace: Vec::new(),
            budget: Default::default(),
            used: Default::default(),
            budget_hit: false,
        }
    }

    pub fn with_kinds(prefix: Vec<u32>, kinds: Vec<String>) -> Self {
        let mut c = Chooser::new(prefix);
        c.prefix_kinds = Some(kinds);
        c
    }

    /// After `max` recorded choice points of `kind`, further ones offer no alternative.
    pub fn set_budget(&mut self, kind: &'static str, max: u32) {
        self.budget.insert(kind, max);
    }

    pub fn choose(&mut self, kind: &'static str, n: u32) -> u32 {
        if n <= 1 {
            return 0;
        }
        if let Some(&max) = self.budget.get(kind) {
            let u = self.used.entry(kind).or_insert(0);
            if *u >= max {
                self.budget_hit = true;
                return 0;
            }
            *u += 1;
        }
        let i = self.trace.len();
        let pick = if i < self.prefix.len() {
            let p = self.prefix[i];
            if p >= n {
                crate::machinery(format!(
                    "replay divergence at choice {i}: recorded pick {p} but only {n} options (kind {kind})"
                ));
            }
            if let Some(k) = &self.prefix_kinds {
                if k[i] != kind {
                    crate::machinery(format!(
                        "replay divergence at choice {i}: recorded kind {} but now {kind}",
                        k[i]
                    ));
                }
            }
            p
        } else {
            0
        };
        self.trace.push(Point { kind: kind.to_string(), n, pick });
        pick
    }

    /// the picks this execution replays before it answers 0 everywhere (added for watchdogs that
    /// must name the case a stuck execution is running)
    pub fn prefix(&self) -> &[u32] {
        &self.prefix
    }

    pub fn prefix_len(&self) -> usize {
        self.prefix.len()
    }

    /// true when the whole prefix was consumed (a shorter run is a divergence)
    pub fn prefix_consumed(&self) -> bool {
        self.trace.len() >= self.prefix.len()
    }

    pub fn picks(&self) -> Vec<u32> {
        self.trace.iter().map(|p| p.pick).collect()
    }

    pub fn deviations(&self) -> u32 {
        self.trace.iter().filter(|p| p.pick != 0).count() as u32
    }
}
