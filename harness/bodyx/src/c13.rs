//! C13 — content coding is lossless, correctly labelled and correctly negotiated.
//!
//! Response side: an `App` wrapped in the real `middleware::Compress` next to a twin `App` without
//! it; the handler is scripted per case (status, headers, body type, chunks). Request side: the
//! real `Decompress` wrapper (alone and inside the `Bytes` extractor) on scripted coded bodies.

use std::{
    cell::RefCell,
    collections::{BTreeMap, BTreeSet},
    panic::AssertUnwindSafe,
    pin::Pin,
    rc::Rc,
    task::{Context, Poll},
};

use actix_codec::Encoder as _;
use actix_http::{
    body::{BodySize, MessageBody},
    error::PayloadError,
    h1, ServiceConfig,
};
use actix_web::{
    dev::{self, Service, ServiceResponse},
    http::{header, StatusCode},
    middleware::Compress,
    test::{self, TestRequest},
    web, App, FromRequest, HttpRequest, HttpResponse,
};
use bytes::{Bytes, BytesMut};
use futures_util::FutureExt as _;
use mc_core::{report::Reporter, Evidence, Violation};
use serde::{Deserialize, Serialize};
use serde_json::json;

use crate::{common::*, rfc};

// ---------------------------------------------------------------------------------------------
// case description

#[derive(Clone, Copy, Debug, PartialEq, Eq, Hash, PartialOrd, Ord, Serialize, Deserialize)]
pub enum Kind {
    Text,
    Lcg,
    /// pseudo-random bytes over a 100-symbol alphabet: compresses by only ~15 %, so along the coded
    /// wire the decoded prefix grows by one or two bytes per wire byte (request side only)
    Mixed,
}

impl Kind {
    fn bytes(self, n: usize) -> Vec<u8> {
        match self {
            Kind::Text => text_bytes(n),
            Kind::Lcg => lcg_bytes(n, n as u64 + 1),
            Kind::Mixed => lcg_bytes(n, n as u64 + 3).into_iter().map(|b| b' ' + b % 100).collect(),
        }
    }
}

#[derive(Clone, Copy, Debug, PartialEq, Eq, Hash, PartialOrd, Ord, Serialize, Deserialize)]
pub enum BodyType {
    /// `HttpResponseBuilder::finish()` — no body
    NoBody,
    /// `.body(Bytes)` — one chunk, size known, `try_into_bytes` succeeds
    Full,
    /// custom MessageBody with `size() == Sized(n)` yielding the scripted chunks
    Sized,
    /// custom MessageBody with `size() == Stream` yielding the scripted chunks
    Stream,
}

#[derive(Clone, Debug, Serialize, Deserialize)]
pub struct RespCase {
    pub family: String,
    pub kind: Kind,
    pub len: usize,
    pub chunking: Chunking,
    pub shape: String,
    pub body_type: BodyType,
    pub pending: bool,
    /// Accept-Encoding header lines (None = header absent)
    pub ae: Option<Vec<String>>,
    pub status: u16,
    /// Content-Encoding set by the handler ("gzip" = the handler really sends gzip data)
    pub preset_ce: Option<String>,
    /// handler sets an explicit Content-Length header (true length of what it sends)
    pub set_cl: bool,
    /// with set_cl: use `HttpResponseBuilder::no_chunking(len)` (Content-Length header + the
    /// head's no-chunking flag) instead of a plain header
    #[serde(default)]
    pub no_chunking: bool,
    pub ctype: Option<String>,
}

#[derive(Clone, Copy, Debug, PartialEq, Eq, Hash, PartialOrd, Ord, Serialize, Deserialize)]
pub enum Via {
    /// `dev::Decompress::from_headers(payload, headers)` pulled directly
    Decompress,
    /// the `web::Bytes` extractor (wraps Decompress itself)
    BytesExtractor,
}

#[derive(Clone, Debug, Serialize, Deserialize)]
pub struct ReqCase {
    pub coding: Coding,
    /// exact Content-Encoding header value
    pub ce_header: Option<String>,
    pub kind: Kind,
    pub len: usize,
    pub chunking: Chunking,
    pub shape: String,
    pub pending: bool,
    pub via: Via,
}

#[derive(Clone, Debug, Serialize, Deserialize)]
pub enum Case13 {
    Resp(RespCase),
    Req(ReqCase),
}

// ---------------------------------------------------------------------------------------------
// scripted handler

struct Script {
    status: u16,
    preset_ce: Option<String>,
    ctype: Option<String>,
    set_cl: bool,
    no_chunking: bool,
    body_type: BodyType,
    /// what the handler sends
    bytes: Vec<u8>,
    chunks: Vec<Bytes>,
    pending: bool,
}

thread_local! {
    static CUR: RefCell<Option<Rc<Script>>> = const { RefCell::new(None) };
    static GATE: RefCell<Option<Rc<SrcStats>>> = const { RefCell::new(None) };
}

struct ScriptBody {
    src: Source,
    size: BodySize,
}

impl MessageBody for ScriptBody {
    type Error = PayloadError;
    fn size(&self) -> BodySize {
        self.size
    }
    fn poll_next(self: Pin<&mut Self>, cx: &mut Context<'_>) -> Poll<Option<Result<Bytes, PayloadError>>> {
        use futures_core::Stream as _;
        Pin::new(&mut self.get_mut().src).poll_next(cx)
    }
}

async fn handler(_req: HttpRequest) -> HttpResponse {
    let s = CUR.with(|c| c.borrow().clone()).expect("no script installed");
    let mut b = HttpResponse::build(StatusCode::from_u16(s.status).unwrap());
    if let Some(ce) = &s.preset_ce {
        b.insert_header((header::CONTENT_ENCODING, ce.as_str()));
    }
    if let Some(ct) = &s.ctype {
        b.insert_header((header::CONTENT_TYPE, ct.as_str()));
    }
    if s.set_cl && s.no_chunking {
        b.no_chunking(s.bytes.len() as u64);
    } else if s.set_cl {
        b.insert_header((header::CONTENT_LENGTH, s.bytes.len().to_string()));
    }
    match s.body_type {
        BodyType::NoBody => b.finish(),
        BodyType::Full => b.body(Bytes::from(s.bytes.clone())),
        BodyType::Sized | BodyType::Stream => {
            let (src, stats) = Source::new(s.chunks.clone(), s.pending);
            GATE.with(|g| *g.borrow_mut() = Some(stats));
            let size = if s.body_type == BodyType::Sized {
                BodySize::Sized(s.bytes.len() as u64)
            } else {
                BodySize::Stream
            };
            b.body(ScriptBody { src, size })
        }
    }
}

fn script_for(c: &RespCase) -> Script {
    let src = if c.body_type == BodyType::NoBody { vec![] } else { c.kind.bytes(c.len) };
    let bytes = match c.preset_ce.as_deref() {
        _ if c.body_type == BodyType::NoBody => vec![],
        Some("gzip") => Coding::Gzip.encode(&src),
        Some("br") => Coding::Br.encode(&src),
        _ => src,
    };
    let chunks = match c.body_type {
        BodyType::NoBody => vec![],
        BodyType::Full => vec![Bytes::from(bytes.clone())],
        _ => c.chunking.split(&bytes),
    };
    Script {
        status: c.status,
        preset_ce: c.preset_ce.clone(),
        ctype: c.ctype.clone(),
        set_cl: c.set_cl,
        no_chunking: c.no_chunking,
        body_type: c.body_type,
        bytes,
        chunks,
        pending: c.pending,
    }
}

// ---------------------------------------------------------------------------------------------
// observations

#[derive(Clone, Debug, PartialEq, Eq)]
pub struct RespObs {
    pub call_error: Option<String>,
    pub status: u16,
    /// name -> ordered values; `date` removed
    pub headers: BTreeMap<String, Vec<String>>,
    pub size_hint: String,
    pub emitted: Vec<u8>,
    pub emitted_chunks: Vec<usize>,
    pub body_error: Option<String>,
    /// None = terminated; Some(reason) = poll bound exceeded / stalled
    pub unterminated: Option<String>,
    pub polls: usize,
    /// response head as written by the real h1::Codec: (lower-cased name, value)
    pub h1_head: Vec<(String, String)>,
    pub h1_error: Option<String>,
}

impl RespObs {
    fn summary(&self) -> serde_json::Value {
        json!({
            "call_error": self.call_error,
            "status": self.status,
            "headers": self.headers,
            "body_size": self.size_hint,
            "emitted_len": self.emitted.len(),
            "emitted_fnv": format!("{:016x}", mc_core::fnv(&self.emitted)),
            "emitted_chunk_count": self.emitted_chunks.len(),
            "emitted_chunks_head": self.emitted_chunks.iter().take(12).collect::<Vec<_>>(),
            "body_error": self.body_error,
            "unterminated": self.unterminated,
            "polls": self.polls,
            "h1_head": self.h1_head,
            "h1_error": self.h1_error,
        })
    }
}

#[derive(Clone, Debug, PartialEq, Eq)]
pub struct ReqObs {
    pub result: Result<Vec<u8>, String>,
    pub unterminated: Option<String>,
    pub polls: usize,
    pub wire_len: usize,
    pub n_chunks: usize,
    pub max_chunk: usize,
}

#[derive(Clone, Debug, PartialEq, Eq)]
pub enum Obs13 {
    Resp { with: RespObs, base: RespObs },
    Req(ReqObs),
}

impl Obs13 {
    /// the number of polls depends on when a blocking-pool hand-off completes; everything else
    /// must be identical between runs
    fn canon(&self) -> Obs13 {
        let mut o = self.clone();
        match &mut o {
            Obs13::Resp { with, base } => {
                with.polls = 0;
                base.polls = 0;
            }
            Obs13::Req(r) => r.polls = 0,
        }
        o
    }
    fn summary(&self) -> serde_json::Value {
        match self {
            Obs13::Resp { with, base } => json!({"with_compress": with.summary(), "without_compress": base.summary()}),
            Obs13::Req(o) => json!({
                "result": match &o.result { Ok(b) => json!({"ok_len": b.len(), "fnv": format!("{:016x}", mc_core::fnv(b))}), Err(e) => json!({"err": e}) },
                "unterminated": o.unterminated, "polls": o.polls, "wire_len": o.wire_len, "n_chunks": o.n_chunks,
            }),
        }
    }
}

// ---------------------------------------------------------------------------------------------
// running

fn empty_resp_obs() -> RespObs {
    RespObs {
        call_error: None,
        status: 0,
        headers: BTreeMap::new(),
        size_hint: String::new(),
        emitted: vec![],
        emitted_chunks: vec![],
        body_error: None,
        unterminated: None,
        polls: 0,
        h1_head: vec![],
        h1_error: None,
    }
}

async fn observe_response<B: MessageBody + 'static>(
    res: Result<ServiceResponse<B>, actix_web::Error>,
    cfg: &ServiceConfig,
    n_src_chunks: usize,
) -> RespObs {
    let mut o = empty_resp_obs();
    let sres = match res {
        Ok(r) => r,
        Err(e) => {
            o.call_error = Some(format!("{e:?}"));
            return o;
        }
    };
    let (_req, res) = sres.into_parts();
    let (head, body) = res.into_parts();
    o.status = head.status().as_u16();
    for (k, v) in head.headers().iter() {
        if k == header::DATE {
            continue;
        }
        o.headers
            .entry(k.as_str().to_ascii_lowercase())
            .or_default()
            .push(String::from_utf8_lossy(v.as_bytes()).into_owned());
    }
    let size = body.size();
    o.size_hint = format!("{size:?}");

    // the head as the real HTTP/1 encoder writes it
    {
        let mut codec = h1::Codec::new(cfg.clone());
        let mut buf = BytesMut::new();
        let hres: actix_http::Response<()> = head.into();
        match codec.encode(h1::Message::Item((hres, size)), &mut buf) {
            Ok(()) => {
                let text = String::from_utf8_lossy(&buf).into_owned();
                let head_part = text.split("\r\n\r\n").next().unwrap_or("");
                for line in head_part.split("\r\n").skip(1) {
                    if let Some((k, v)) = line.split_once(':') {
                        let k = k.trim().to_ascii_lowercase();
                        if k != "date" {
                            o.h1_head.push((k, v.trim().to_string()));
                        }
                    }
                }
            }
            Err(e) => o.h1_error = Some(format!("{e}")),
        }
        // HeaderMap iteration order is randomised: compare as a sorted list
        o.h1_head.sort();
    }

    // pull the body chunk by chunk under the counting driver
    let gate = GATE.with(|g| g.borrow_mut().take());
    let gates: Vec<Rc<SrcStats>> = gate.into_iter().collect();
    let max_polls = 10_000 + 4 * n_src_chunks;
    let mut body = Box::pin(body);
    let collected: Rc<RefCell<(Vec<u8>, Vec<usize>)>> = Rc::new(RefCell::new((vec![], vec![])));
    let col = collected.clone();
    let fut = async move {
        loop {
            match std::future::poll_fn(|cx| body.as_mut().poll_next(cx)).await {
                Some(Ok(b)) => {
                    let mut c = col.borrow_mut();
                    c.0.extend_from_slice(&b);
                    c.1.push(b.len());
                }
                Some(Err(e)) => {
                    let e: Box<dyn std::error::Error> = e.into();
                    return Some(format!("{e}"));
                }
                None => return None,
            }
        }
    };
    match drive(fut, &gates, max_polls).await {
        Ok((err, polls)) => {
            o.body_error = err;
            o.polls = polls;
        }
        Err(DriveErr::PollBound) => o.unterminated = Some(format!("not finished after {max_polls} polls")),
        Err(DriveErr::Stalled) => o.unterminated = Some("stalled: Pending with no wake-up".into()),
    }
    let c = collected.borrow();
    o.emitted = c.0.clone();
    o.emitted_chunks = c.1.clone();
    o
}

fn service_request(c: &RespCase) -> actix_http::Request {
    let mut r = TestRequest::get().uri("/x");
    if let Some(lines) = &c.ae {
        for l in lines {
            r = r.append_header((header::ACCEPT_ENCODING, l.as_str()));
        }
    }
    r.to_request()
}

async fn run_resp<S1, B1, S2, B2>(with: &S1, base: &S2, cfg: &ServiceConfig, c: &RespCase) -> Obs13
where
    S1: Service<actix_http::Request, Response = ServiceResponse<B1>, Error = actix_web::Error>,
    B1: MessageBody + 'static,
    S2: Service<actix_http::Request, Response = ServiceResponse<B2>, Error = actix_web::Error>,
    B2: MessageBody + 'static,
{
    let script = Rc::new(script_for(c));
    let n = script.chunks.len();
    CUR.with(|cur| *cur.borrow_mut() = Some(script.clone()));
    GATE.with(|g| *g.borrow_mut() = None);
    let r1 = with.call(service_request(c)).await;
    let o1 = observe_response(r1, cfg, n).await;
    GATE.with(|g| *g.borrow_mut() = None);
    let r2 = base.call(service_request(c)).await;
    let o2 = observe_response(r2, cfg, n).await;
    CUR.with(|cur| *cur.borrow_mut() = None);
    Obs13::Resp { with: o1, base: o2 }
}

async fn run_req(c: &ReqCase) -> Obs13 {
    let body = c.kind.bytes(c.len);
    let wire = c.coding.encode(&body);
    let lens = c.chunking.lens(wire.len());
    let chunks = c.chunking.split(&wire);
    let n_chunks = chunks.len();
    let max_polls = 10_000 + 8 * n_chunks;
    let mut r = TestRequest::post().uri("/x");
    if let Some(h) = &c.ce_header {
        r = r.insert_header((header::CONTENT_ENCODING, h.as_str()));
    }
    r = r.insert_header((header::CONTENT_LENGTH, wire.len().to_string()));
    r = r.app_data(web::PayloadConfig::new((4 * c.len).max(1 << 20)));
    let req = r.to_http_request();
    let (src, stats) = Source::new(chunks, c.pending);
    let res = match c.via {
        Via::Decompress => {
            let mut dec = dev::Decompress::from_headers(src, req.headers());
            let fut = async move {
                use futures_util::StreamExt as _;
                let mut out = Vec::new();
                while let Some(item) = dec.next().await {
                    match item {
                        Ok(b) => out.extend_from_slice(&b),
                        Err(e) => return Err(format!("{e:?}")),
                    }
                }
                Ok(out)
            };
            drive(AssertUnwindSafe(fut).catch_unwind(), &[stats], max_polls).await
        }
        Via::BytesExtractor => {
            let mut pl = dev::Payload::Stream { payload: Box::pin(src) as actix_http::BoxedPayloadStream };
            let req2 = req.clone();
            let fut = async move {
                match web::Bytes::from_request(&req2, &mut pl).await {
                    Ok(b) => Ok(b.to_vec()),
                    Err(e) => Err(format!("{e:?}")),
                }
            };
            drive(AssertUnwindSafe(fut).catch_unwind(), &[stats], max_polls).await
        }
    };
    let mut o = ReqObs {
        result: Err("not run".into()),
        unterminated: None,
        polls: 0,
        wire_len: wire.len(),
        n_chunks,
        max_chunk: lens.iter().copied().max().unwrap_or(0),
    };
    match res {
        Ok((Ok(r), p)) => {
            o.result = r;
            o.polls = p;
        }
        Ok((Err(p), _)) => o.result = Err(format!("panic: {}", panic_msg(p))),
        Err(DriveErr::PollBound) => {
            o.unterminated = Some(format!("not finished after {max_polls} polls"));
        }
        Err(DriveErr::Stalled) => o.unterminated = Some("stalled: Pending with no wake-up".into()),
    }
    Obs13::Req(o)
}

// ---------------------------------------------------------------------------------------------
// oracle

fn excluded_ctype(ct: Option<&str>) -> bool {
    // documented nowhere but in the code of Compress: image/* except svg, and video/*
    match ct {
        None => false,
        Some(ct) => {
            let ct = ct.to_ascii_lowercase();
            (ct.starts_with("image/") && !ct.starts_with("image/svg")) || ct.starts_with("video/")
        }
    }
}

fn size_class(len: usize) -> &'static str {
    match len {
        0 => "0",
        1 => "1",
        2..=64 => "2..64",
        65..=1023 => "65..1023",
        1024 => "1024",
        1025..=2047 => "1025..2047",
        2048 => "2048",
        2049 => "2049",
        2050..=8192 => "2050..8192",
        _ => ">8192",
    }
}

fn ae_text(c: &RespCase) -> String {
    match &c.ae {
        None => "(absent)".into(),
        Some(l) => format!("{l:?}"),
    }
}

fn rviol(c: &RespCase, obs: &Obs13, clause: &str, sig: String, what: String) -> Violation {
    Violation {
        property: "C13".into(),
        clause: clause.into(),
        signature: sig,
        what,
        replay: json!({"case": Case13::Resp(c.clone()), "observed": obs.canon().summary()}),
        weight: (c.len as u64) * 8
            + c.chunking.lens_len_hint() as u64
            + c.ae.as_ref().map(|l| l.iter().map(|s| s.len()).sum::<usize>()).unwrap_or(0) as u64
            + if c.pending { 1 } else { 0 }
            + if c.len == 0 { 1_000_000 } else { 0 },
    }
}

impl Chunking {
    fn lens_len_hint(&self) -> usize {
        match self {
            Chunking::Lens(v) => v.len(),
            Chunking::Ones => 1000,
            Chunking::OnesUntil(k) => *k,
            Chunking::Every(k) => 100_000 / (*k).max(1),
        }
    }
}

/// outcome class for evidence
fn resp_class(c: &RespCase, with: &RespObs) -> String {
    let ce = with.headers.get("content-encoding").map(|v| v.join(",")).unwrap_or_else(|| "identity".into());
    format!("{}:{}", with.status, if c.preset_ce.is_some() { format!("preset-{ce}") } else { ce })
}

pub fn judge_resp(c: &RespCase, obs: &Obs13) -> Vec<Violation> {
    let Obs13::Resp { with, base } = obs else { mc_core::machinery("judge_resp on a request observation") };
    let mut out = Vec::new();
    let script = script_for(c);
    let desc = format!(
        "status={} accept-encoding={} body={:?}/{:?} {} B chunks={} pending={} handler content-encoding={:?} handler content-length={}{} content-type={:?}",
        c.status, ae_text(c), c.kind, c.body_type, script.bytes.len(), c.shape, c.pending, c.preset_ce, c.set_cl, if c.no_chunking { " (no_chunking)" } else { "" }, c.ctype
    );
    if base.call_error.is_some() || base.unterminated.is_some() || base.body_error.is_some() {
        mc_core::machinery(format!("baseline (no Compress) run misbehaved: {:?} for {desc}", base.summary()));
    }
    if base.emitted != script.bytes && c.body_type != BodyType::NoBody {
        mc_core::machinery(format!("baseline body differs from the script for {desc}"));
    }
    if let Some(e) = &with.call_error {
        out.push(rviol(c, obs, "a", "service-error".into(), format!("service call failed with {e}: {desc}")));
        return out;
    }
    // (e) termination
    if let Some(why) = &with.unterminated {
        let kind = if why.starts_with("stalled") { "stalled" } else { "poll-bound" };
        out.push(rviol(c, obs, "e", format!("body-stream-does-not-terminate:{kind}"),
            format!("response body stream did not terminate ({why}); {} B emitted so far: {desc}", with.emitted.len())));
        return out;
    }
    if let Some(e) = &with.body_error {
        out.push(rviol(c, obs, "a", "body-stream-error".into(), format!("response body stream failed with `{e}`: {desc}")));
        return out;
    }
    let accept = {
        let lines: Option<Vec<&str>> = c.ae.as_ref().map(|l| l.iter().map(|s| s.as_str()).collect());
        rfc::parse(lines.as_deref())
    };
    // 406 produced by the middleware
    if with.status == 406 && base.status != 406 {
        if rfc::something_permitted(&accept) == rfc::Verdict::Permitted {
            out.push(rviol(c, obs, "b", "not-acceptable-although-a-supported-coding-is-permitted".into(),
                format!("406 Not Acceptable although Accept-Encoding permits a supported coding: {desc}")));
        }
        return out;
    }
    if with.status != base.status {
        out.push(rviol(c, obs, "c", format!("status-changed:{}->{}", base.status, with.status),
            format!("status changed by Compress: {desc}")));
        return out;
    }
    let ce_tokens: Vec<String> = with
        .headers
        .get("content-encoding")
        .map(|v| v.iter().flat_map(|x| x.split(',')).map(|t| t.trim().to_ascii_lowercase()).filter(|t| !t.is_empty()).collect())
        .unwrap_or_default();
    let known_empty = matches!(c.body_type, BodyType::NoBody)
        || (matches!(c.body_type, BodyType::Full | BodyType::Sized) && script.bytes.is_empty());
    let pass_reason = if c.preset_ce.is_some() {
        Some("already-encoded")
    } else if c.status == 101 {
        Some("101")
    } else if c.status == 204 {
        Some("204")
    } else if c.status == 206 {
        Some("206")
    } else if known_empty {
        Some("empty")
    } else {
        None
    };
    // (c) pass-through
    if let Some(reason) = pass_reason {
        if with.headers != base.headers {
            out.push(rviol(c, obs, "c", format!("passthrough-altered:{reason}:headers"),
                format!("response that must pass through unchanged ({reason}) has different headers with Compress: {:?} vs {:?}: {desc}", with.headers, base.headers)));
        }
        if with.emitted != base.emitted {
            out.push(rviol(c, obs, "c", format!("passthrough-altered:{reason}:body"),
                format!("response that must pass through unchanged ({reason}) has a different body with Compress ({} B vs {} B): {desc}", with.emitted.len(), base.emitted.len())));
        }
    }
    // (a) lossless + correctly labelled (a body-less response has nothing to decode)
    if !(c.body_type == BodyType::NoBody && with.emitted.is_empty()) {
        let mut data = Ok(with.emitted.clone());
        let mut label = String::new();
        for t in ce_tokens.iter().rev() {
            label = t.clone();
            data = match (data, Coding::from_token(t)) {
                (Ok(d), Some(coding)) => coding.decode(&d).map_err(|e| format!("decode-error:{e}")),
                (Ok(_), None) => Err(format!("unknown-coding-token:{t}")),
                (e, _) => e,
            };
        }
        let want: Vec<u8> = if c.preset_ce.as_deref() == Some("gzip") || c.preset_ce.as_deref() == Some("br") {
            c.kind.bytes(c.len)
        } else {
            script.bytes.clone()
        };
        let label = if label.is_empty() { "identity".to_string() } else { label };
        match data {
            Ok(d) if d == want => {}
            Ok(d) => {
                let how = if want.starts_with(&d) { "truncated" } else if d.starts_with(&want) { "extra-bytes" } else { "differs" };
                out.push(rviol(c, obs, "a", format!("lossy:{label}:{how}"),
                    format!("decoding the response body with `{label}` gives {} B, the handler sent {} B ({how}): {desc}", d.len(), want.len())));
            }
            Err(e) => {
                let kind = e.split(':').next().unwrap_or("decode-error").to_string();
                out.push(rviol(c, obs, "a", format!("lossy:{label}:{kind}"),
                    format!("response body ({} B) cannot be decoded with the coding named in Content-Encoding ({e}): {desc}", with.emitted.len())));
            }
        }
    }
    // (b) negotiation. Not demanded for content types the middleware never compresses (image/*
    // except svg, video/*): for those the un-coded representation is the only one the server has,
    // and RFC 7231 5.3.4 lets it send that when nothing acceptable is available.
    if pass_reason.is_none() && !excluded_ctype(c.ctype.as_deref()) {
        let chosen = match ce_tokens.as_slice() {
            [] => Some(Coding::Identity),
            [t] => Coding::from_token(t),
            _ => None,
        };
        match chosen {
            None => out.push(rviol(c, obs, "b", "content-encoding-not-a-single-supported-coding".into(),
                format!("Content-Encoding {ce_tokens:?} is not one supported coding: {desc}"))),
            Some(ch) => {
                if rfc::permits(&accept, ch) == rfc::Verdict::Forbidden {
                    let why = "negotiation";
                    let how = match &accept {
                        rfc::Accept::List(items) => {
                            if items.iter().any(|(t, q)| t == ch.token() && *q == 0) {
                                "explicit-q0"
                            } else if items.iter().any(|(t, q)| t == "*" && *q == 0) {
                                "star-q0"
                            } else {
                                "unlisted"
                            }
                        }
                        _ => "?",
                    };
                    out.push(rviol(c, obs, "b", format!("coding-not-permitted:{}:{how}:{why}", ch.token()),
                        format!("response uses coding `{}` which Accept-Encoding {} does not permit ({how}; cause: {why}): {desc}", ch.token(), ae_text(c))));
                }
            }
        }
    }
    // (d) stale length
    let reencoded = pass_reason.is_none() && !ce_tokens.is_empty();
    if reencoded && c.status != 304 {
        if let Some(v) = with.headers.get("content-length") {
            if v.iter().any(|x| x.trim().parse::<usize>().ok() != Some(with.emitted.len())) {
                out.push(rviol(c, obs, "d", "stale-content-length:response-headers".into(),
                    format!("re-encoded response ({} B on the wire, Content-Encoding {ce_tokens:?}) still carries Content-Length {v:?} of the unencoded body: {desc}", with.emitted.len())));
            }
        }
        if let Some(e) = &with.h1_error {
            out.push(rviol(c, obs, "d", "h1-encode-error".into(), format!("h1 encoder failed: {e}: {desc}")));
        }
        let cls: Vec<&String> = with.h1_head.iter().filter(|(k, _)| k == "content-length").map(|(_, v)| v).collect();
        if cls.iter().any(|x| x.trim().parse::<usize>().ok() != Some(with.emitted.len())) {
            out.push(rviol(c, obs, "d", "stale-content-length:h1-wire".into(),
                format!("HTTP/1 head of the re-encoded response ({} B body) carries content-length {cls:?}: {desc}", with.emitted.len())));
        }
        let te = with.h1_head.iter().any(|(k, _)| k == "transfer-encoding");
        // a re-encoded body must be delimited on a persistent HTTP/1.1 connection: by its (new)
        // length or by chunked transfer coding — otherwise the client cannot find its end
        if cls.is_empty() && !te && !with.emitted.is_empty() && with.h1_error.is_none() && !matches!(c.status, 101 | 204 | 304) {
            out.push(rviol(c, obs, "e", "unframed-body:h1-wire".into(),
                format!("HTTP/1 head of the re-encoded response ({} B body) carries neither content-length nor transfer-encoding: the body has no end on a keep-alive connection: {desc}", with.emitted.len())));
        }
        if !cls.is_empty() && te {
            out.push(rviol(c, obs, "d", "content-length-and-transfer-encoding:h1-wire".into(),
                format!("HTTP/1 head carries both content-length and transfer-encoding: {desc}")));
        }
    }
    out
}

pub fn judge_req(c: &ReqCase, obs: &Obs13) -> Vec<Violation> {
    let Obs13::Req(o) = obs else { mc_core::machinery("judge_req on a response observation") };
    let body = c.kind.bytes(c.len);
    let desc = format!(
        "content-encoding={:?} via={:?} body={:?} {} B wire={} B chunks={} ({}) pending={}",
        c.ce_header, c.via, c.kind, c.len, o.wire_len, o.n_chunks, c.shape, c.pending
    );
    let mk = |sig: String, what: String| Violation {
        property: "C13".into(),
        clause: "f".into(),
        signature: sig,
        what,
        replay: json!({"case": Case13::Req(c.clone()), "observed": obs.canon().summary()}),
        weight: (o.wire_len as u64) * 8 + o.n_chunks as u64 + if c.pending { 1 } else { 0 },
    };
    let mut out = Vec::new();
    if let Some(why) = &o.unterminated {
        let kind = if why.starts_with("stalled") { "stalled" } else { "poll-bound" };
        out.push(mk(format!("request-body-does-not-terminate:{}:{kind}", c.coding.token()), format!("decoded request body never ended ({why}): {desc}")));
        return out;
    }
    match &o.result {
        Ok(b) if *b == body => {}
        Ok(b) => {
            let how = if body.starts_with(b) { "truncated" } else if b.starts_with(&body) { "extra-bytes" } else { "differs" };
            out.push(mk(format!("request-body-not-equal:{}:{how}", c.coding.token()),
                format!("decoded request body has {} B, original {} B ({how}): {desc}", b.len(), body.len())));
        }
        Err(e) => {
            let kind: String = e.chars().take_while(|ch| ch.is_ascii_alphanumeric() || *ch == ':' || *ch == ' ').take(24).collect();
            out.push(mk(format!("request-body-error:{}:{}", c.coding.token(), kind.trim()),
                format!("request body with a supported coding failed to decode ({e}): {desc}")));
        }
    }
    out
}

pub fn judge(c: &Case13, o: &Obs13) -> Vec<Violation> {
    match c {
        Case13::Resp(r) => judge_resp(r, o),
        Case13::Req(r) => judge_req(r, o),
    }
}

// ---------------------------------------------------------------------------------------------
// enumeration

fn resp_chunkings(len: usize, thorough: bool) -> Vec<(Chunking, String)> {
    let mut out: Vec<(Chunking, String)> = Vec::new();
    if len == 0 {
        out.push((Chunking::Lens(vec![]), "no-chunks".into()));
        out.push((Chunking::Lens(vec![0]), "one-empty-chunk".into()));
        out.push((Chunking::Lens(vec![0, 0]), "two-empty-chunks".into()));
        return out;
    }
    let mut seen = BTreeSet::new();
    let mut push = |c: Chunking, label: String, out: &mut Vec<(Chunking, String)>| {
        if seen.insert(c.lens(len)) {
            out.push((c, label));
        }
    };
    push(Chunking::whole(len), "whole".into(), &mut out);
    push(Chunking::Lens(vec![0, len]), "empty-first".into(), &mut out);
    push(Chunking::Lens(vec![len, 0]), "empty-last".into(), &mut out);
    if len >= 2 {
        push(Chunking::Lens(vec![len / 2, 0, len - len / 2]), "empty-middle".into(), &mut out);
    }
    if len <= 64 {
        for p in 1..len {
            push(Chunking::cuts(len, &[p]), format!("cut@{p}"), &mut out);
        }
        push(Chunking::Ones, "ones".into(), &mut out);
        if thorough && len <= 10 {
            for mask in 0..(1u64 << (len - 1)) {
                let c = Chunking::composition(len, mask);
                let label = format!("comp:{:?}", c.lens(len));
                push(c, label, &mut out);
            }
        }
    } else {
        for t in [1023usize, 1024, 1025, 2048, 2049] {
            if len > t {
                push(Chunking::Lens(vec![t, len - t]), format!("head{t}+rest"), &mut out);
                push(Chunking::Lens(vec![len - t, t]), format!("rest+tail{t}"), &mut out);
                push(Chunking::Lens(vec![t, 0, len - t]), format!("head{t}+empty+rest"), &mut out);
            }
        }
        push(Chunking::Lens(vec![1, len - 1]), "1+rest".into(), &mut out);
        push(Chunking::Lens(vec![len - 1, 1]), "rest+1".into(), &mut out);
        for k in [100usize, 512, 1023, 1024, 1025] {
            push(Chunking::Every(k), format!("every{k}"), &mut out);
        }
        if len > 8192 {
            push(Chunking::Every(8192), "every8192".into(), &mut out);
        }
        if len <= 2049 {
            push(Chunking::Ones, "ones".into(), &mut out);
        }
    }
    out
}

fn ae_menu(thorough: bool) -> Vec<Option<Vec<String>>> {
    let tokens = ["gzip", "deflate", "br", "zstd", "identity", "*", "foo"];
    let qs: Vec<Option<&str>> = if thorough {
        vec![None, Some("1"), Some("0.5"), Some("0"), Some("0.001"), Some("0.0"), Some("0.000"), Some("1.000"), Some("0.999")]
    } else {
        vec![None, Some("1"), Some("0.5"), Some("0"), Some("0.001")]
    };
    let item = |t: &str, q: Option<&str>| match q {
        None => t.to_string(),
        Some(q) => format!("{t};q={q}"),
    };
    let mut out: Vec<Option<Vec<String>>> = vec![None];
    for t in tokens {
        for q in &qs {
            out.push(Some(vec![item(t, *q)]));
        }
    }
    let pair_qs: Vec<Option<&str>> = vec![None, Some("1"), Some("0.5"), Some("0"), Some("0.001")];
    for a in tokens {
        for b in tokens {
            if a == b {
                continue;
            }
            for qa in &pair_qs {
                for qb in &pair_qs {
                    out.push(Some(vec![format!("{}, {}", item(a, *qa), item(b, *qb))]));
                }
            }
        }
    }
    if thorough {
        let tq: [Option<&str>; 5] = [None, Some("1"), Some("0.5"), Some("0"), Some("0.001")];
        for a in tokens {
            for b in tokens {
                for c in tokens {
                    if a == b || b == c || a == c {
                        continue;
                    }
                    for qa in tq {
                        for qb in tq {
                            for qc in tq {
                                out.push(Some(vec![format!("{}, {}, {}", item(a, qa), item(b, qb), item(c, qc))]));
                            }
                        }
                    }
                }
            }
        }
    }
    if thorough {
        let fq: [Option<&str>; 2] = [None, Some("0")];
        for a in tokens {
            for b in tokens {
                for c in tokens {
                    for d in tokens {
                        let set: BTreeSet<&str> = [a, b, c, d].into_iter().collect();
                        if set.len() != 4 {
                            continue;
                        }
                        for qa in fq {
                            for qb in fq {
                                for qc in fq {
                                    for qd in fq {
                                        out.push(Some(vec![format!("{}, {}, {}, {}", item(a, qa), item(b, qb), item(c, qc), item(d, qd))]));
                                    }
                                }
                            }
                        }
                    }
                }
            }
        }
    }
    for s in [
        "", " ", "gzip, ", ", gzip", "GZIP", "Gzip;Q=0", "gzip ; q=0", "gzip; q=0", "gzip ;q=0, *", "gzip;q=abc", "gzip;q=1.5",
        "gzip;q=0.0001", "gzip;;q=0", "gzip;q=", "gzip q=0", "gzip;level=9", "br;q=0.5, gzip;q=1.0",
        "gzip;q=1.0, identity; q=0.5, *;q=0", "compress, gzip", "compress;q=0.5, gzip;q=1.0", "x-gzip",
        "gzip, gzip;q=0", "identity;q=0, identity", "*;q=0, *", "identity;q=0, *;q=0.5", "*;q=0.5, identity;q=0",
        "identity;q=0, gzip;q=0, deflate;q=0, br;q=0, zstd;q=0", "identity;q=0, gzip;q=0, deflate;q=0, br;q=0, zstd;q=0, *",
    ] {
        out.push(Some(vec![s.to_string()]));
    }
    out.push(Some(vec!["gzip;q=0".into(), "br".into()]));
    out.push(Some(vec!["*;q=0".into(), "identity".into()]));
    out.push(Some(vec!["identity;q=0".into(), "gzip".into()]));
    out
}

pub fn enumerate(tier: &str) -> Vec<Case13> {
    let thorough = tier == "thorough";
    let mut cases = Vec::new();
    let lens: Vec<usize> = if thorough {
        let mut v: Vec<usize> = (0..=16).collect();
        v.extend([33, 63, 64, 65, 1022, 1023, 1024, 1025, 1026, 2047, 2048, 2049, 2050, 4096, 8191, 8192, 8193, 70_000, 300_000]);
        v
    } else {
        vec![0, 1, 2, 13, 64, 1023, 1024, 1025, 2048, 2049, 70_000, 200_000]
    };
    let base = RespCase {
        family: String::new(),
        kind: Kind::Text,
        len: 0,
        chunking: Chunking::Lens(vec![]),
        shape: String::new(),
        body_type: BodyType::Stream,
        pending: false,
        ae: None,
        status: 200,
        preset_ce: None,
        set_cl: false,
        no_chunking: false,
        ctype: None,
    };

    // P1: coding x body x chunking x body type x pending
    let p1_ae: Vec<Option<Vec<String>>> = vec![
        Some(vec!["gzip".into()]),
        Some(vec!["deflate".into()]),
        Some(vec!["br".into()]),
        Some(vec!["zstd".into()]),
        Some(vec!["identity".into()]),
        None,
    ];
    for &len in &lens {
        for kind in [Kind::Text, Kind::Lcg] {
            if len == 0 && kind == Kind::Lcg {
                continue;
            }
            for ae in &p1_ae {
                for (chunking, shape) in resp_chunkings(len, thorough) {
                    let single = chunking.lens(len).len() == 1;
                    let mut types = vec![BodyType::Sized, BodyType::Stream];
                    if single {
                        types.push(BodyType::Full);
                    }
                    if len == 0 && chunking.lens(0).is_empty() {
                        types.push(BodyType::NoBody);
                        types.push(BodyType::Full);
                    }
                    for body_type in types {
                        for pending in [false, true] {
                            if pending && matches!(body_type, BodyType::Full | BodyType::NoBody) {
                                continue;
                            }
                            cases.push(Case13::Resp(RespCase {
                                family: "P1-coding-body-chunking".into(),
                                kind,
                                len,
                                chunking: chunking.clone(),
                                shape: shape.clone(),
                                body_type,
                                pending,
                                ae: ae.clone(),
                                ..base.clone()
                            }));
                        }
                    }
                }
            }
        }
    }

    // P2: negotiation
    for ae in ae_menu(thorough) {
        for (len, body_type, chunking, shape) in [
            (64usize, BodyType::Full, Chunking::whole(64), "whole"),
            (1025, BodyType::Stream, Chunking::Every(512), "every512"),
        ] {
            cases.push(Case13::Resp(RespCase {
                family: "P2-negotiation".into(),
                len,
                chunking,
                shape: shape.into(),
                body_type,
                ae: ae.clone(),
                ..base.clone()
            }));
        }
    }

    // P3: status / pre-set Content-Encoding / handler Content-Length / Content-Type
    let p3_ae: Vec<Option<Vec<String>>> = vec![
        None,
        Some(vec!["gzip".into()]),
        Some(vec!["br, gzip".into()]),
        Some(vec!["identity;q=0, gzip".into()]),
        Some(vec!["*".into()]),
        Some(vec!["zstd;q=0.9, deflate".into()]),
    ];
    let p3_bodies: Vec<(usize, BodyType, Chunking, &str)> = vec![
        (0, BodyType::NoBody, Chunking::Lens(vec![]), "no-chunks"),
        (0, BodyType::Full, Chunking::Every(1 << 30), "whole"),
        (0, BodyType::Stream, Chunking::Every(1 << 30), "no-chunks"),
        (1, BodyType::Full, Chunking::Every(1 << 30), "whole"),
        (64, BodyType::Sized, Chunking::Ones, "ones"),
        (1025, BodyType::Full, Chunking::Every(1 << 30), "whole"),
        (1025, BodyType::Stream, Chunking::Every(512), "every512"),
        (2049, BodyType::Sized, Chunking::Every(1024), "every1024"),
    ];
    for status in [200u16, 204, 206, 304, 101] {
        for preset in [None, Some("gzip"), Some("identity"), Some("br")] {
            for (set_cl, no_chunking) in [(false, false), (true, false), (true, true)] {
                for ctype in [None, Some("text/plain"), Some("application/json"), Some("image/jpeg"), Some("image/svg+xml"), Some("video/mp4")] {
                    for ae in &p3_ae {
                        for (len, body_type, chunking, shape) in &p3_bodies {
                            if *body_type == BodyType::NoBody && set_cl {
                                continue;
                            }
                            cases.push(Case13::Resp(RespCase {
                                family: "P3-status-preset-headers".into(),
                                len: *len,
                                chunking: chunking.clone(),
                                shape: (*shape).into(),
                                body_type: *body_type,
                                ae: ae.clone(),
                                status,
                                preset_ce: preset.map(|s| s.to_string()),
                                set_cl,
                                no_chunking,
                                ctype: ctype.map(|s| s.to_string()),
                                ..base.clone()
                            }));
                        }
                    }
                }
            }
        }
    }

    // P4: request side
    let req_lens: Vec<usize> = if thorough {
        vec![0, 1, 2, 3, 13, 64, 65, 1023, 1024, 1025, 2047, 2048, 2049, 2050, 4096, 8192, 70_000, 300_000]
    } else {
        vec![0, 1, 13, 64, 1023, 1024, 1025, 2048, 2049, 4096, 70_000]
    };
    for coding in Coding::ALL {
        for &len in &req_lens {
            for kind in [Kind::Text, Kind::Lcg, Kind::Mixed] {
                if len == 0 && kind == Kind::Lcg {
                    continue;
                }
                if kind == Kind::Mixed && (coding == Coding::Identity || ![1024, 2049, 4096].contains(&len)) {
                    continue;
                }
                let wire = coding.encode(&kind.bytes(len));
                let m = wire.len();
                let mut chs: Vec<(Chunking, String)> = Vec::new();
                let mut seen = BTreeSet::new();
                let mut push = |c: Chunking, label: String, chs: &mut Vec<(Chunking, String)>| {
                    if seen.insert(c.lens(m)) {
                        chs.push((c, label));
                    }
                };
                if m == 0 {
                    push(Chunking::Lens(vec![]), "no-chunks".into(), &mut chs);
                    push(Chunking::Lens(vec![0]), "one-empty-chunk".into(), &mut chs);
                } else {
                    push(Chunking::whole(m), "whole".into(), &mut chs);
                    push(Chunking::Lens(vec![0, m]), "empty-first".into(), &mut chs);
                    push(Chunking::Lens(vec![m, 0]), "empty-last".into(), &mut chs);
                    if m >= 2 {
                        push(Chunking::Lens(vec![m / 2, 0, m - m / 2]), "empty-middle".into(), &mut chs);
                    }
                    // every single cut: always for short wires; for compressible bodies up to a
                    // few KiB too (the decoded prefix grows in small steps along the wire, so
                    // every relation between "decoded so far" and the declared length occurs)
                    let all_cuts = m <= 64 || thorough && m <= 300 || kind != Kind::Lcg && coding != Coding::Identity && (m <= 4200 || thorough && m <= 6000);
                    if all_cuts {
                        for p in 1..m {
                            push(Chunking::cuts(m, &[p]), format!("cut@{p}"), &mut chs);
                        }
                    } else {
                        for p in [1, 10, m / 2, m - 8, m - 1] {
                            push(Chunking::cuts(m, &[p]), format!("cut@{p}"), &mut chs);
                        }
                    }
                    if m <= 4200 || thorough && m <= 9000 {
                        push(Chunking::Ones, "ones".into(), &mut chs);
                    }
                    for k in [7usize, 2048, 2049, 4096] {
                        push(Chunking::Every(k), format!("every{k}"), &mut chs);
                    }
                }
                for (chunking, shape) in chs {
                    for pending in [false, true] {
                        if pending && m > 300 && shape.starts_with("cut@") && !["cut@1", "cut@10"].contains(&shape.as_str()) && shape != format!("cut@{}", m / 2) && shape != format!("cut@{}", m - 8) && shape != format!("cut@{}", m - 1) {
                            continue;
                        }
                        for via in [Via::Decompress, Via::BytesExtractor] {
                            let mut headers: Vec<Option<String>> = match coding {
                                Coding::Identity => vec![None, Some("identity".into())],
                                c => vec![Some(c.token().to_string())],
                            };
                            if coding == Coding::Gzip && shape == "whole" {
                                headers.push(Some("GZIP".into()));
                            }
                            for ce_header in headers {
                                cases.push(Case13::Req(ReqCase {
                                    coding,
                                    ce_header,
                                    kind,
                                    len,
                                    chunking: chunking.clone(),
                                    shape: shape.clone(),
                                    pending,
                                    via,
                                }));
                            }
                        }
                    }
                }
            }
        }
    }
    cases
}

// ---------------------------------------------------------------------------------------------
// entry points

fn run_capped(cases: &[Case13], deadline: Option<std::time::Instant>) -> Vec<Option<Obs13>> {
    let order = case_order(cases.len());
    run_pool::<Obs13>(cases.len(), &order, deadline, |feed| {
        actix_rt::System::new().block_on(async {
            let with = test::init_service(App::new().wrap(Compress::default()).default_service(web::to(handler))).await;
            let base = test::init_service(App::new().default_service(web::to(handler))).await;
            let cfg = ServiceConfig::default();
            while let Some(i) = feed.next() {
                let o = match &cases[i] {
                    Case13::Resp(c) => run_resp(&with, &base, &cfg, c).await,
                    Case13::Req(c) => run_req(c).await,
                };
                feed.put(i, o);
            }
        });
    })
}

fn run_all(cases: &[Case13]) -> Vec<Obs13> {
    run_capped(cases, None)
        .into_iter()
        .enumerate()
        .map(|(i, o)| o.unwrap_or_else(|| mc_core::machinery(format!("case {i} was not executed"))))
        .collect()
}

pub fn main(tier: &str, wall_cap: Option<u64>) -> i32 {
    let t0 = std::time::Instant::now();
    let cap_s = wall_cap.unwrap_or(if tier == "thorough" { 1500 } else { 50 });
    let all_cases = enumerate(tier);
    let enumerated = all_cases.len();
    eprintln!("C13: {} cases enumerated", enumerated);
    let raw = run_capped(&all_cases, Some(t0 + std::time::Duration::from_secs(cap_s)));
    let mut cases = Vec::with_capacity(enumerated);
    let mut obs = Vec::with_capacity(enumerated);
    for (c, o) in all_cases.into_iter().zip(raw) {
        if let Some(o) = o {
            cases.push(c);
            obs.push(o);
        }
    }
    let capped = cases.len() < enumerated;
    if cases.is_empty() {
        eprintln!("MACHINERY: no case was executed within the wall cap");
        return 2;
    }
    if capped {
        eprintln!("C13: WALL CAP FIRED after {} of {} cases", cases.len(), enumerated);
    }

    // determinism
    let mut again_idx: Vec<usize> = (0..cases.len().min(64)).collect();
    again_idx.extend((0..cases.len()).step_by(211));
    let again_cases: Vec<Case13> = again_idx.iter().map(|&i| cases[i].clone()).collect();
    let again = run_all(&again_cases);
    for (k, &i) in again_idx.iter().enumerate() {
        if again[k].canon() != obs[i].canon() {
            eprintln!("MACHINERY: nondeterministic observation for case {}: {} vs {}", serde_json::to_string(&cases[i]).unwrap(), obs[i].summary(), again[k].summary());
            return 2;
        }
    }

    let mut rep = Reporter::new("C13");
    let mut failing = Vec::new();
    let mut sig_inputs: BTreeMap<String, (u64, BTreeSet<String>)> = BTreeMap::new();
    for (i, (c, o)) in cases.iter().zip(&obs).enumerate() {
        let vs = judge(c, o);
        for v in &vs {
            let e = sig_inputs.entry(format!("{}:{}", v.clause, v.signature)).or_default();
            e.0 += 1;
            if e.1.len() < 400 {
                if let Case13::Resp(r) = c {
                    e.1.insert(ae_text(r));
                }
            }
        }
        if !vs.is_empty() {
            failing.push(i);
        }
        rep.add_all(vs);
    }
    let fail_cases: Vec<Case13> = failing.iter().take(512).map(|&i| cases[i].clone()).collect();
    let fail_again = run_all(&fail_cases);
    for (k, &i) in failing.iter().take(512).enumerate() {
        if fail_again[k].canon() != obs[i].canon() {
            eprintln!("MACHINERY: failing case did not reproduce identically: {}", serde_json::to_string(&cases[i]).unwrap());
            return 2;
        }
    }

    // evidence
    let mut distinct: BTreeSet<(String, &'static str, String, u16, String)> = BTreeSet::new();
    let mut families: BTreeMap<String, u64> = BTreeMap::new();
    let mut class_hist: BTreeMap<String, u64> = BTreeMap::new();
    let (mut encoded, mut blocking_enc, mut blocking_dec, mut na406, mut ae_distinct) = (0u64, 0u64, 0u64, 0u64, BTreeSet::new());
    for (c, o) in cases.iter().zip(&obs) {
        match (c, o) {
            (Case13::Resp(c), Obs13::Resp { with, .. }) => {
                *families.entry(c.family.clone()).or_default() += 1;
                ae_distinct.insert(c.ae.clone());
                let class = resp_class(c, with);
                *class_hist.entry(class.clone()).or_default() += 1;
                let ce = with.headers.get("content-encoding").map(|v| v.join(","));
                let reenc = ce.is_some() && c.preset_ce.is_none();
                if reenc {
                    encoded += 1;
                    let script = script_for(c);
                    if script.chunks.iter().any(|ch| ch.len() >= 1024) {
                        blocking_enc += 1;
                    }
                }
                if with.status == 406 {
                    na406 += 1;
                }
                if reenc || with.status == 406 {
                    distinct.insert((ce.unwrap_or_else(|| "identity".into()), size_class(c.len), c.shape.clone(), with.status, class));
                }
            }
            (Case13::Req(c), Obs13::Req(o)) => {
                *families.entry("P4-request-decoding".into()).or_default() += 1;
                let class = match &o.result {
                    Ok(_) => "decoded".to_string(),
                    Err(_) => "error".to_string(),
                };
                if c.coding != Coding::Identity {
                    if o.max_chunk >= 2049 {
                        blocking_dec += 1;
                    }
                    distinct.insert((format!("req-{}-{:?}", c.coding.token(), c.via), size_class(c.len), c.shape.clone(), 0, class));
                }
            }
            _ => mc_core::machinery("case/observation kind mismatch"),
        }
    }
    let mut samples = Vec::new();
    for k in [0usize, cases.len() / 5, 2 * cases.len() / 5, 3 * cases.len() / 5, cases.len() - 1] {
        samples.push(json!({"case": cases[k], "observed": obs[k].summary()}));
    }
    let mut ev = Evidence::new("C13", tier, "exploration");
    ev.set("evaluations", cases.len() as u64)
        .set("distinct_nontrivial", distinct.len() as u64)
        .set("rule", "union of four full cartesian products, each run through the real Compress middleware next to a twin App without it (response side) or the real Decompress wrapper (request side): P1 Accept-Encoding{gzip,deflate,br,zstd,identity,absent} x body length x {text, LCG} x chunking (every single cut <= 64 B; head/tail chunks of 1023/1024/1025/2048/2049 B, fixed-size, 1-byte, with empty chunks) x body type {Sized, Stream, Full, none} x Pending; P2 Accept-Encoding menu (all 1- and 2-item lists over 7 tokens x 5 weights, 3-item lists in thorough, hand-written odd/malformed values, multi-line) x 2 bodies; P3 status{200,204,206,304,101} x handler Content-Encoding{none,gzip,identity,br} x handler Content-Length x Content-Type x Accept-Encoding x body; P4 request coding x length x kind x wire chunking x Pending x {Decompress, Bytes extractor}. distinct_nontrivial = distinct (coding, size-class, chunking-shape, status, outcome-class) tuples among cases where the body was really re-encoded by the middleware, answered 406, or decoded from a real (non-identity) request coding")
        .set("samples", samples)
        .set("exhaustive", !capped)
        .set("capped", capped)
        .set("enumerated", enumerated as u64)
        .set("cap_note", if capped { "wall cap fired: cases are executed in enumeration order (P1, P2, P3, P4) unless VERIF_SEED permutes it; cases_per_family shows what was covered" } else { "the whole enumerated product was executed" })
        .set("cases_per_family", json!(families))
        .set("response_outcome_histogram", json!(class_hist))
        .set("responses_reencoded", encoded)
        .set("responses_reencoded_with_chunk_on_blocking_pool_path", blocking_enc)
        .set("request_cases_on_blocking_pool_path", blocking_dec)
        .set("responses_406", na406)
        .set("distinct_accept_encoding_values", ae_distinct.len() as u64)
        .set("determinism_reruns", (again_idx.len() + fail_cases.len()) as u64)
        .set("violating_cases", rep.total_violating_cases)
        .set("violation_classes", json!(rep.summaries()))
        .set("violating_inputs_per_class", json!(sig_inputs.iter().map(|(k, v)| (k.clone(), json!({"cases": v.0, "accept_encoding_values": v.1}))).collect::<BTreeMap<_, _>>()));
    ev.assume("responses are taken from actix_web::test services (no socket); clause (d) additionally encodes the response head with the real actix_http::h1::Codec")
        .assume("blocking-pool completion time is not enumerated: a real current-thread runtime with the blocking pool is used and the hand-off is awaited; results do not depend on timing (checked by re-running)")
        .assume("an empty body of unknown size (stream that yields nothing) is not counted as a response that must pass through: the encoder cannot know it is empty")
        .assume("preference order among permitted codings is not demanded");
    ev.wall_s = t0.elapsed().as_secs_f64();
    ev.violations = rep.unknown_count() as i64;
    ev.write();
    eprintln!(
        "C13: {} evaluations, {} distinct non-trivial classes, {} violation classes ({} known), {:.1}s",
        cases.len(), distinct.len(), rep.distinct(), rep.known_count(), t0.elapsed().as_secs_f64()
    );
    rep.finish()
}

pub fn replay(v: &serde_json::Value) -> i32 {
    let case: Case13 = serde_json::from_value(v["replay"]["case"].clone())
        .unwrap_or_else(|e| mc_core::machinery(format!("bad replay file: {e}")));
    let obs = run_all(std::slice::from_ref(&case)).pop().unwrap();
    println!("case: {}", serde_json::to_string(&case).unwrap());
    println!("observed: {}", serde_json::to_string_pretty(&obs.summary()).unwrap());
    if v["replay"]["observed"] != obs.canon().summary() {
        println!("note: observation differs from the recorded one");
    }
    let vs = judge(&case, &obs);
    for x in &vs {
        println!("FAILS clause={} signature={}\n  {}", x.clause, x.signature, x.what);
    }
    if vs.is_empty() {
        println!("no clause fails on this case");
        0
    } else {
        1
    }
}
