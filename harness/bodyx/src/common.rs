//! Shared pieces of the bodyx engine: deterministic bodies, chunkings, reference codecs (flate2 /
//! brotli / zstd used directly, never through actix), the scripted counting source stream, the
//! counting poll driver, and the 16-thread worker pool (one actix System per worker).

use std::{
    cell::{Cell, RefCell},
    collections::VecDeque,
    future::Future,
    io::{Read as _, Write as _},
    pin::Pin,
    rc::Rc,
    sync::{
        atomic::{AtomicBool, AtomicUsize, Ordering},
        Arc, Mutex,
    },
    task::{Context, Poll, Wake, Waker},
    time::Duration,
};

use actix_http::error::PayloadError;
use bytes::Bytes;
use futures_core::Stream;
use serde::{Deserialize, Serialize};

// ---------------------------------------------------------------------------------------------
// bodies

/// Compressible: repeated English-ish text.
pub fn text_bytes(n: usize) -> Vec<u8> {
    const PART: &[u8] = b"hello world, lorem ipsum dolor sit amet; ";
    (0..n).map(|i| PART[i % PART.len()]).collect()
}

/// Incompressible: a 64-bit LCG (deterministic, process independent).
pub fn lcg_bytes(n: usize, seed: u64) -> Vec<u8> {
    let mut s = seed.wrapping_mul(0x9E3779B97F4A7C15).wrapping_add(0x1234_5678_9abc_def1);
    (0..n)
        .map(|_| {
            s = s.wrapping_mul(6364136223846793005).wrapping_add(1442695040888963407);
            (s >> 33) as u8
        })
        .collect()
}

// ---------------------------------------------------------------------------------------------
// codings (reference side)

#[derive(Clone, Copy, Debug, PartialEq, Eq, Hash, PartialOrd, Ord, Serialize, Deserialize)]
pub enum Coding {
    Identity,
    Gzip,
    Deflate,
    Br,
    Zstd,
}

impl Coding {
    pub const ALL: [Coding; 5] =
        [Coding::Identity, Coding::Gzip, Coding::Deflate, Coding::Br, Coding::Zstd];

    pub fn token(self) -> &'static str {
        match self {
            Coding::Identity => "identity",
            Coding::Gzip => "gzip",
            Coding::Deflate => "deflate",
            Coding::Br => "br",
            Coding::Zstd => "zstd",
        }
    }

    pub fn from_token(t: &str) -> Option<Coding> {
        match t.trim().to_ascii_lowercase().as_str() {
            "identity" => Some(Coding::Identity),
            "gzip" | "x-gzip" => Some(Coding::Gzip),
            "deflate" => Some(Coding::Deflate),
            "br" => Some(Coding::Br),
            "zstd" => Some(Coding::Zstd),
            _ => None,
        }
    }

    /// Encode with the codec library directly.
    pub fn encode(self, data: &[u8]) -> Vec<u8> {
        match self {
            Coding::Identity => data.to_vec(),
            Coding::Gzip => {
                let mut e =
                    flate2::write::GzEncoder::new(Vec::new(), flate2::Compression::default());
                e.write_all(data).unwrap();
                e.finish().unwrap()
            }
            Coding::Deflate => {
                let mut e =
                    flate2::write::ZlibEncoder::new(Vec::new(), flate2::Compression::default());
                e.write_all(data).unwrap();
                e.finish().unwrap()
            }
            Coding::Br => {
                let mut out = Vec::new();
                {
                    let mut w = brotli::CompressorWriter::new(&mut out, 4096, 5, 22);
                    w.write_all(data).unwrap();
                    w.flush().unwrap();
                }
                out
            }
            Coding::Zstd => zstd::stream::encode_all(data, 3).unwrap(),
        }
    }

    /// Decode with the codec library directly; the whole input must be one complete stream.
    pub fn decode(self, data: &[u8]) -> Result<Vec<u8>, String> {
        let mut out = Vec::new();
        match self {
            Coding::Identity => {
                out.extend_from_slice(data);
                Ok(out)
            }
            Coding::Gzip => {
                let mut d = flate2::read::GzDecoder::new(data);
                d.read_to_end(&mut out).map_err(|e| format!("gzip: {e}"))?;
                Ok(out)
            }
            Coding::Deflate => {
                let mut d = flate2::read::ZlibDecoder::new(data);
                d.read_to_end(&mut out).map_err(|e| format!("zlib: {e}"))?;
                Ok(out)
            }
            Coding::Br => {
                let mut d = brotli::Decompressor::new(data, 4096);
                d.read_to_end(&mut out).map_err(|e| format!("brotli: {e}"))?;
                Ok(out)
            }
            Coding::Zstd => {
                let mut d = zstd::stream::read::Decoder::new(data).map_err(|e| format!("zstd: {e}"))?;
                d.read_to_end(&mut out).map_err(|e| format!("zstd: {e}"))?;
                Ok(out)
            }
        }
    }
}

// ---------------------------------------------------------------------------------------------
// chunkings

#[derive(Clone, Debug, PartialEq, Eq, Hash, PartialOrd, Ord, Serialize, Deserialize)]
pub enum Chunking {
    /// explicit chunk lengths; must sum to the body length; zero = an empty chunk
    Lens(Vec<usize>),
    /// every byte its own chunk
    Ones,
    /// 1-byte chunks up to offset k, then the remainder as one chunk
    OnesUntil(usize),
    /// fixed-size chunks of k bytes (last one shorter)
    Every(usize),
}

impl Chunking {
    pub fn whole(n: usize) -> Chunking {
        Chunking::Lens(vec![n])
    }

    /// chunking given by sorted cut positions strictly inside (0, n)
    pub fn cuts(n: usize, cuts: &[usize]) -> Chunking {
        let mut v = Vec::new();
        let mut prev = 0;
        let mut c: Vec<usize> = cuts.iter().copied().filter(|&c| c > 0 && c < n).collect();
        c.sort_unstable();
        c.dedup();
        for p in c {
            v.push(p - prev);
            prev = p;
        }
        v.push(n - prev);
        Chunking::Lens(v)
    }

    /// composition number `mask` of n (bit i set = cut after byte i+1), n >= 1
    pub fn composition(n: usize, mask: u64) -> Chunking {
        let cuts: Vec<usize> = (1..n).filter(|i| mask >> (i - 1) & 1 == 1).collect();
        Chunking::cuts(n, &cuts)
    }

    pub fn lens(&self, n: usize) -> Vec<usize> {
        match self {
            Chunking::Lens(v) => {
                let s: usize = v.iter().sum();
                if s != n {
                    mc_core::machinery(format!("chunking {v:?} does not sum to body length {n}"));
                }
                v.clone()
            }
            Chunking::Ones => vec![1; n],
            Chunking::OnesUntil(k) => {
                let k = (*k).min(n);
                let mut v = vec![1; k];
                if n > k {
                    v.push(n - k);
                }
                v
            }
            Chunking::Every(k) => {
                let k = (*k).max(1);
                let mut v = vec![k; n / k];
                if n % k != 0 {
                    v.push(n % k);
                }
                v
            }
        }
    }

    pub fn split(&self, data: &[u8]) -> Vec<Bytes> {
        let mut out = Vec::new();
        let mut off = 0;
        for l in self.lens(data.len()) {
            out.push(Bytes::copy_from_slice(&data[off..off + l]));
            off += l;
        }
        out
    }
}

// ---------------------------------------------------------------------------------------------
// scripted counting source

#[derive(Default)]
pub struct SrcStats {
    pub pulled_chunks: Cell<usize>,
    pub pulled_bytes: Cell<usize>,
    pub polls: Cell<usize>,
    pub eof_seen: Cell<bool>,
    /// waker parked by a Pending answer; the driver releases it when the consumer is idle
    pub parked: RefCell<Option<Waker>>,
    /// set by the driver when it releases the parked waker: the next poll delivers one item
    pub gate_open: Cell<bool>,
    /// polls that arrived after the source had already answered `Ready(None)`
    pub polls_after_end: Cell<usize>,
}

/// Yields the scripted chunks; with `pending` every item (and the end) is held back (Pending, waker
/// parked in `stats`) until the driver releases it, which it does only when the consumer is idle.
pub struct Source {
    chunks: VecDeque<Bytes>,
    pending: bool,
    stats: Rc<SrcStats>,
}

impl Source {
    pub fn new(chunks: Vec<Bytes>, pending: bool) -> (Source, Rc<SrcStats>) {
        let stats = Rc::new(SrcStats::default());
        (Source { chunks: chunks.into(), pending, stats: stats.clone() }, stats)
    }
}

impl Stream for Source {
    type Item = Result<Bytes, PayloadError>;

    fn poll_next(self: Pin<&mut Self>, cx: &mut Context<'_>) -> Poll<Option<Self::Item>> {
        let this = self.get_mut();
        this.stats.polls.set(this.stats.polls.get() + 1);
        if this.stats.eof_seen.get() {
            // A finished stream must not be polled again ("may panic, block forever, or cause
            // other kinds of problems"): this one blocks forever, without registering a waker,
            // so a consumer that does poll again shows up as a stream that never terminates.
            this.stats.polls_after_end.set(this.stats.polls_after_end.get() + 1);
            return Poll::Pending;
        }
        if this.pending {
            // stays Pending (however often it is polled) until the driver opens the gate; one
            // release delivers exactly one item
            if !this.stats.gate_open.get() {
                *this.stats.parked.borrow_mut() = Some(cx.waker().clone());
                return Poll::Pending;
            }
            this.stats.gate_open.set(false);
        }
        match this.chunks.pop_front() {
            Some(c) => {
                this.stats.pulled_chunks.set(this.stats.pulled_chunks.get() + 1);
                this.stats.pulled_bytes.set(this.stats.pulled_bytes.get() + c.len());
                Poll::Ready(Some(Ok(c)))
            }
            None => {
                this.stats.eof_seen.set(true);
                Poll::Ready(None)
            }
        }
    }
}

// ---------------------------------------------------------------------------------------------
// counting poll driver

struct Fwd {
    /// true while the driver loop is running on its own thread: a wake-up then only needs to set
    /// `woken` (the loop re-checks it before it returns Pending)
    polling: AtomicBool,
    woken: AtomicBool,
    wakes: AtomicUsize,
    outer: Mutex<Option<Waker>>,
}

impl Wake for Fwd {
    fn wake(self: Arc<Self>) {
        self.wake_by_ref()
    }
    fn wake_by_ref(self: &Arc<Self>) {
        self.woken.store(true, Ordering::SeqCst);
        self.wakes.fetch_add(1, Ordering::SeqCst);
        if !self.polling.load(Ordering::SeqCst) {
            if let Some(w) = self.outer.lock().unwrap().as_ref() {
                w.wake_by_ref();
            }
        }
    }
}

#[derive(Debug, Clone, PartialEq, Eq)]
pub enum DriveErr {
    /// more than `max_polls` polls without completion
    PollBound,
    /// Pending, nobody holds a waker the harness can fire, and nothing woke it within the
    /// machinery timeout (a wake-up was lost or a hand-off never completes)
    Stalled,
}

/// Polls `fut` only when it was woken; when it is idle and the scripted source has parked a waker
/// the driver fires it (that is the only environment event); otherwise it waits for a wake-up
/// from the blocking pool. Returns the output and the number of polls.
pub async fn drive<F: Future>(
    fut: F,
    gates: &[Rc<SrcStats>],
    max_polls: usize,
) -> Result<(F::Output, usize), DriveErr> {
    let mut fut = Box::pin(fut);
    let fwd = Arc::new(Fwd {
        polling: AtomicBool::new(false),
        woken: AtomicBool::new(true),
        wakes: AtomicUsize::new(0),
        outer: Mutex::new(None),
    });
    let inner_waker = Waker::from(fwd.clone());
    let mut polls = 0usize;
    let run = std::future::poll_fn(|cx| {
        *fwd.outer.lock().unwrap() = Some(cx.waker().clone());
        fwd.polling.store(true, Ordering::SeqCst);
        loop {
            if !fwd.woken.swap(false, Ordering::SeqCst) {
                let mut released = false;
                for g in gates {
                    let w = g.parked.borrow_mut().take();
                    if let Some(w) = w {
                        g.gate_open.set(true);
                        w.wake();
                        released = true;
                        break;
                    }
                }
                if released {
                    continue;
                }
                // about to sleep: from here on a wake-up must reach the outer task
                fwd.polling.store(false, Ordering::SeqCst);
                if fwd.woken.load(Ordering::SeqCst) {
                    fwd.polling.store(true, Ordering::SeqCst);
                    continue;
                }
                return Poll::Pending;
            }
            polls += 1;
            if polls > max_polls {
                fwd.polling.store(false, Ordering::SeqCst);
                return Poll::Ready(Err(DriveErr::PollBound));
            }
            let mut icx = Context::from_waker(&inner_waker);
            if let Poll::Ready(v) = fut.as_mut().poll(&mut icx) {
                fwd.polling.store(false, Ordering::SeqCst);
                return Poll::Ready(Ok(v));
            }
        }
    });
    match tokio::time::timeout(Duration::from_secs(stall_secs()), run).await {
        Ok(Ok(v)) => Ok((v, polls)),
        Ok(Err(e)) => Err(e),
        Err(_) => {
            STALLS.fetch_add(1, Ordering::SeqCst);
            Err(DriveErr::Stalled)
        }
    }
}

static STALLS: AtomicUsize = AtomicUsize::new(0);

/// Machinery timeout after which "Pending, no waker the harness can fire, no wake-up" is called a
/// stall. The only legitimate wait is one blocking-pool hand-off (milliseconds); 10 s leaves room
/// for a heavily loaded machine. After 32 stalls in one run the wait drops to 2 s so that a
/// systematically hanging subject cannot blow the wall budget.
fn stall_secs() -> u64 {
    let base = std::env::var("VERIF_STALL_S").ok().and_then(|s| s.parse().ok()).unwrap_or(10);
    if STALLS.load(Ordering::SeqCst) >= 32 {
        base.min(2)
    } else {
        base
    }
}

// ---------------------------------------------------------------------------------------------
// worker pool: `n` OS threads, each with its own actix System (current-thread tokio runtime with
// the blocking pool enabled); work items are taken from a shared counter.

pub struct Feed<'a, O> {
    deadline: Option<std::time::Instant>,
    next: &'a AtomicUsize,
    order: &'a [usize],
    results: &'a Mutex<Vec<Option<O>>>,
}

impl<O> Feed<'_, O> {
    pub fn next(&self) -> Option<usize> {
        if let Some(d) = self.deadline {
            if std::time::Instant::now() >= d {
                return None; // wall cap: the remaining cases stay unexecuted (reported as capped)
            }
        }
        let k = self.next.fetch_add(1, Ordering::SeqCst);
        self.order.get(k).copied()
    }
    pub fn put(&self, i: usize, o: O) {
        self.results.lock().unwrap()[i] = Some(o);
    }
}

/// `worker` is run on every thread; it builds its own runtime and loops `feed.next()`.
pub fn run_pool<O: Send>(
    n_cases: usize,
    order: &[usize],
    deadline: Option<std::time::Instant>,
    worker: impl Fn(&Feed<'_, O>) + Sync,
) -> Vec<Option<O>> {
    let n = mc_core::cli::threads();
    let next = AtomicUsize::new(0);
    let results: Mutex<Vec<Option<O>>> = Mutex::new((0..n_cases).map(|_| None).collect());
    std::thread::scope(|scope| {
        for _ in 0..n {
            scope.spawn(|| {
                let feed = Feed { deadline, next: &next, order, results: &results };
                worker(&feed);
            });
        }
    });
    results.into_inner().unwrap()
}

/// Order in which cases are executed: identity, or a seed-determined permutation. The explored
/// set never depends on it.
pub fn case_order(n: usize) -> Vec<usize> {
    let mut v: Vec<usize> = (0..n).collect();
    let seed: u64 = std::env::var("VERIF_SEED").ok().and_then(|s| s.parse().ok()).unwrap_or(0);
    if seed != 0 {
        let mut s = seed;
        for i in (1..n).rev() {
            s = s.wrapping_mul(6364136223846793005).wrapping_add(1442695040888963407);
            let j = (s >> 33) as usize % (i + 1);
            v.swap(i, j);
        }
    }
    v
}

pub fn panic_msg(p: Box<dyn std::any::Any + Send>) -> String {
    if let Some(m) = p.downcast_ref::<mc_core::MachineryError>() {
        eprintln!("MACHINERY: {}", m.0);
        std::process::exit(2);
    }
    if let Some(s) = p.downcast_ref::<&str>() {
        s.to_string()
    } else if let Some(s) = p.downcast_ref::<String>() {
        s.clone()
    } else {
        "panic".into()
    }
}
