//! Independent evaluator for `Accept-Encoding` (RFC 7231 §5.3.4 / RFC 9110 §12.5.3). Written from
//! the RFC text; shares no code with actix.
//!
//! 1. no Accept-Encoding field: any content coding is acceptable.
//! 2. the representation without coding ("identity") is acceptable unless excluded by
//!    `identity;q=0`, or by `*;q=0` without a more specific entry for identity.
//! 3. a coding that is listed is acceptable unless its qvalue is 0; `*` matches every coding
//!    not listed explicitly.
//! 4. (preference among acceptable codings is not demanded.)
//! An empty field value means only identity is acceptable.

use crate::common::Coding;

#[derive(Clone, Debug, PartialEq)]
pub enum Accept {
    /// header absent: everything is permitted
    Absent,
    /// header present but not matching the grammar: nothing can be demanded
    Malformed,
    /// (lower-cased coding token or "*", qvalue in thousandths)
    List(Vec<(String, u16)>),
}

fn is_tchar(b: u8) -> bool {
    b.is_ascii_alphanumeric() || b"!#$%&'*+-.^_`|~".contains(&b)
}

fn parse_qvalue(s: &str) -> Option<u16> {
    // qvalue = ( "0" [ "." 0*3DIGIT ] ) / ( "1" [ "." 0*3("0") ] )
    let b = s.as_bytes();
    if b.is_empty() {
        return None;
    }
    let (int, rest) = (b[0], &b[1..]);
    if int != b'0' && int != b'1' {
        return None;
    }
    let mut frac = 0u16;
    if !rest.is_empty() {
        if rest[0] != b'.' || rest.len() > 4 {
            return None;
        }
        let digits = &rest[1..];
        if !digits.iter().all(|d| d.is_ascii_digit()) {
            return None;
        }
        let mut scale = 100;
        for d in digits {
            frac += (d - b'0') as u16 * scale;
            scale /= 10;
        }
    }
    if int == b'1' {
        if frac != 0 {
            return None;
        }
        Some(1000)
    } else {
        Some(frac)
    }
}

/// `values`: the field values of all Accept-Encoding header lines, in order.
pub fn parse(values: Option<&[&str]>) -> Accept {
    let Some(values) = values else { return Accept::Absent };
    let mut items = Vec::new();
    for v in values {
        for elem in v.split(',') {
            let elem = elem.trim_matches(|c| c == ' ' || c == '\t');
            if elem.is_empty() {
                continue; // empty list elements are ignored (RFC 7230 §7)
            }
            let mut parts = elem.split(';');
            let token = parts.next().unwrap().trim_matches(|c| c == ' ' || c == '\t');
            if token.is_empty() || !token.bytes().all(is_tchar) {
                return Accept::Malformed;
            }
            let mut q = 1000u16;
            let mut n_params = 0;
            for p in parts {
                let p = p.trim_matches(|c| c == ' ' || c == '\t');
                n_params += 1;
                if n_params > 1 {
                    return Accept::Malformed;
                }
                let Some((k, val)) = p.split_once('=') else { return Accept::Malformed };
                if !k.eq_ignore_ascii_case("q") {
                    return Accept::Malformed;
                }
                match parse_qvalue(val) {
                    Some(x) => q = x,
                    None => return Accept::Malformed,
                }
            }
            items.push((token.to_ascii_lowercase(), q));
        }
    }
    Accept::List(items)
}

#[derive(Clone, Copy, Debug, PartialEq, Eq)]
pub enum Verdict {
    Permitted,
    Forbidden,
    /// the header is malformed or lists the coding more than once with conflicting weights
    Undetermined,
}

pub fn permits(a: &Accept, coding: Coding) -> Verdict {
    let items = match a {
        Accept::Absent => return Verdict::Permitted,
        Accept::Malformed => return Verdict::Undetermined,
        Accept::List(items) => items,
    };
    let name = coding.token();
    let listed: Vec<u16> = items.iter().filter(|(t, _)| t == name).map(|(_, q)| *q).collect();
    if !listed.is_empty() {
        let pos = listed.iter().any(|q| *q > 0);
        let zero = listed.iter().any(|q| *q == 0);
        return match (pos, zero) {
            (true, false) => Verdict::Permitted,
            (false, true) => Verdict::Forbidden,
            _ => Verdict::Undetermined,
        };
    }
    let stars: Vec<u16> = items.iter().filter(|(t, _)| t == "*").map(|(_, q)| *q).collect();
    if !stars.is_empty() {
        let pos = stars.iter().any(|q| *q > 0);
        let zero = stars.iter().any(|q| *q == 0);
        return match (pos, zero) {
            (true, false) => Verdict::Permitted,
            (false, true) => Verdict::Forbidden,
            _ => Verdict::Undetermined,
        };
    }
    if coding == Coding::Identity {
        Verdict::Permitted
    } else {
        Verdict::Forbidden
    }
}

/// Is at least one of the codings the server supports (identity, gzip, deflate, br, zstd)
/// definitely permitted?
pub fn something_permitted(a: &Accept) -> Verdict {
    let mut undetermined = false;
    for c in Coding::ALL {
        match permits(a, c) {
            Verdict::Permitted => return Verdict::Permitted,
            Verdict::Undetermined => undetermined = true,
            Verdict::Forbidden => {}
        }
    }
    if undetermined {
        Verdict::Undetermined
    } else {
        Verdict::Forbidden
    }
}

#[cfg(test)]
mod tests {
    use super::*;

    #[test]
    fn basics() {
        let a = parse(Some(&["gzip;q=0, *"]));
        assert_eq!(permits(&a, Coding::Gzip), Verdict::Forbidden);
        assert_eq!(permits(&a, Coding::Br), Verdict::Permitted);
        assert_eq!(permits(&a, Coding::Identity), Verdict::Permitted);
        let a = parse(Some(&["*;q=0"]));
        assert_eq!(something_permitted(&a), Verdict::Forbidden);
        let a = parse(Some(&["identity;q=0"]));
        assert_eq!(permits(&a, Coding::Identity), Verdict::Forbidden);
        assert_eq!(permits(&a, Coding::Gzip), Verdict::Forbidden);
        let a = parse(Some(&[""]));
        assert_eq!(permits(&a, Coding::Identity), Verdict::Permitted);
        assert_eq!(permits(&a, Coding::Gzip), Verdict::Forbidden);
        assert_eq!(parse(Some(&["gzip;q=abc"])), Accept::Malformed);
        assert_eq!(parse(Some(&["gzip;q=1.001"])), Accept::Malformed);
        assert_eq!(parse(Some(&["GZIP ; Q=0.5"])), Accept::List(vec![("gzip".into(), 500)]));
    }
}
