//! bodyx — bounded-exhaustive enumeration engine for C12 (extractor limits) and C13 (content coding).
//! `bodyx C12|C13 --tier quick|thorough [--replay file]`

mod c12;
mod c13;
mod common;
mod rfc;

fn main() {
    let args = mc_core::cli::parse();
    // subject panics are outcomes (caught per case); keep their default message off stderr
    let default_hook = std::panic::take_hook();
    std::panic::set_hook(Box::new(move |info| {
        if let Some(m) = info.payload().downcast_ref::<mc_core::MachineryError>() {
            eprintln!("MACHINERY: {}", m.0);
        } else if std::env::var("VERIF_SHOW_PANICS").is_ok() {
            default_hook(info);
        }
    }));
    let code = std::panic::catch_unwind(|| {
        if let Some(path) = &args.replay {
            let v = mc_core::report::read_replay(path);
            match args.property.as_str() {
                "C12" => c12::replay(&v),
                "C13" => c13::replay(&v),
                p => {
                    eprintln!("MACHINERY: bodyx does not serve property {p}");
                    2
                }
            }
        } else {
            match args.property.as_str() {
                "C12" => c12::main(&args.tier, args.wall_s),
                "C13" => c13::main(&args.tier, args.wall_s),
                p => {
                    eprintln!("MACHINERY: bodyx does not serve property {p}");
                    2
                }
            }
        }
    });
    match code {
        Ok(c) => std::process::exit(c),
        Err(p) => {
            if let Some(m) = p.downcast_ref::<mc_core::MachineryError>() {
                eprintln!("MACHINERY: {}", m.0);
            } else {
                eprintln!("MACHINERY: engine panicked: {}", common::panic_msg(p));
            }
            std::process::exit(2)
        }
    }
}
