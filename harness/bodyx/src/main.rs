fn main() {
    eprintln!("MACHINERY: engine bodyx is not built yet");
    std::process::exit(2);
}
