//! C12 — body extractors never accept or buffer more than their configured limit.
//!
//! Bounded-exhaustive enumeration (shape B) of extractor × limit × decoded length × chunking ×
//! Pending-between-chunks × Content-Length variant × content coding, each case run through the
//! REAL extractor (`T::from_request`) on a request whose payload is a scripted counting stream.

use std::{
    collections::{BTreeMap, BTreeSet, HashMap},
    panic::AssertUnwindSafe,
    task::{Context, Poll},
};

use actix_http::{
    body::{BodySize, MessageBody},
    error::PayloadError,
};
use actix_multipart::{
    form::{bytes::Bytes as MpBytes, text::Text, MultipartForm, MultipartFormConfig},
    MultipartConfig, MultipartError,
};
use actix_web::{
    dev,
    error::{JsonPayloadError, UrlencodedError},
    http::header,
    test::TestRequest,
    web, FromRequest, HttpRequest,
};
use bytes::Bytes;
use futures_util::FutureExt as _;
use mc_core::{report::Reporter, Evidence, Violation};
use serde::{Deserialize, Serialize};
use serde_json::json;

use crate::common::*;

// ---------------------------------------------------------------------------------------------
// case description

#[derive(Clone, Copy, Debug, PartialEq, Eq, Hash, PartialOrd, Ord, Serialize, Deserialize)]
pub enum Ext {
    Bytes,
    String,
    Json,
    Form,
    EitherJsonForm,
    PayloadLimited,
    BodyLimited,
    MpTextField,
    MpBytesField,
    MpTotal,
    MpMemory,
    Mp2Total,
    /// a repeatable field with a field-level limit, sent as two adjacent parts `f, f`
    MpRepAdjacent,
    /// ... as `f, g, f` (another field's part in between)
    MpRepInterleaved,
    /// ... as `f, g, f, g, f`
    MpRepInterleaved3,
    /// a field whose wire name differs from the Rust field name (`#[multipart(rename = "f")]`)
    /// with a field-level limit
    MpRenamedField,
    /// a field read by the streaming-to-disk reader (`TempFile`) with a field-level limit
    MpTempFileField,
    /// `Field::bytes(limit)` on the first field of a raw `Multipart` stream
    MpFieldBytes,
}

impl Ext {
    const ALL: [Ext; 18] = [
        Ext::Bytes,
        Ext::String,
        Ext::Json,
        Ext::Form,
        Ext::EitherJsonForm,
        Ext::PayloadLimited,
        Ext::BodyLimited,
        Ext::MpTextField,
        Ext::MpBytesField,
        Ext::MpTotal,
        Ext::MpMemory,
        Ext::Mp2Total,
        Ext::MpRepAdjacent,
        Ext::MpRepInterleaved,
        Ext::MpRepInterleaved3,
        Ext::MpRenamedField,
        Ext::MpTempFileField,
        Ext::MpFieldBytes,
    ];
    fn name(self) -> &'static str {
        match self {
            Ext::Bytes => "bytes",
            Ext::String => "string",
            Ext::Json => "json",
            Ext::Form => "form",
            Ext::EitherJsonForm => "either-json-form",
            Ext::PayloadLimited => "payload-to-bytes-limited",
            Ext::BodyLimited => "body-to-bytes-limited",
            Ext::MpTextField => "multipart-text-field-limit",
            Ext::MpBytesField => "multipart-bytes-field-limit",
            Ext::MpTotal => "multipart-total-limit",
            Ext::MpMemory => "multipart-memory-limit",
            Ext::Mp2Total => "multipart-2fields-total-limit",
            Ext::MpRepAdjacent => "multipart-repeated-field-limit-adjacent",
            Ext::MpRepInterleaved => "multipart-repeated-field-limit-interleaved",
            Ext::MpRepInterleaved3 => "multipart-repeated-field-limit-interleaved3",
            Ext::MpRenamedField => "multipart-renamed-field-limit",
            Ext::MpTempFileField => "multipart-tempfile-field-limit",
            Ext::MpFieldBytes => "multipart-field-bytes-limit",
        }
    }
    fn is_mp(self) -> bool {
        matches!(
            self,
            Ext::MpTextField
                | Ext::MpBytesField
                | Ext::MpTotal
                | Ext::MpMemory
                | Ext::Mp2Total
                | Ext::MpRepAdjacent
                | Ext::MpRepInterleaved
                | Ext::MpRepInterleaved3
                | Ext::MpRenamedField
                | Ext::MpTempFileField
                | Ext::MpFieldBytes
        )
    }
    /// the limited field `f` arrives in several parts
    fn is_mp_repeated(self) -> bool {
        matches!(self, Ext::MpRepAdjacent | Ext::MpRepInterleaved | Ext::MpRepInterleaved3)
    }
    /// does the extractor wrap the payload in `Decompress` itself?
    fn decompresses(self) -> bool {
        matches!(self, Ext::Bytes | Ext::String | Ext::Json | Ext::Form | Ext::EitherJsonForm)
    }
}

#[derive(Clone, Copy, Debug, PartialEq, Eq, Hash, PartialOrd, Ord, Serialize, Deserialize)]
pub enum Cl {
    Absent,
    /// the true wire length
    True,
    /// a lie: smaller than the wire length and not above the limit
    Small,
    /// a lie: wire length + 1
    Plus1,
    /// a lie: above both the wire length and the limit
    OverLimit,
}

#[derive(Clone, Debug, Serialize, Deserialize)]
pub struct Case12 {
    pub ext: Ext,
    pub limit: usize,
    /// decoded length of the limited quantity (the body; for multipart the field data)
    pub len: usize,
    pub coding: Coding,
    pub chunking: Chunking,
    /// label of the chunking shape relative to the limit (evidence classes only)
    pub shape: String,
    pub pending: bool,
    pub cl: Cl,
    /// multipart parser buffer limit (0 = library default 64 KiB)
    pub mp_buf: usize,
}

const MP_BOUNDARY: &str = "XbOuNdX";
const MP_DEFAULT_BUF: usize = 65_536;

struct Built {
    /// the limited quantity, decoded (what a successful extraction must return)
    body: Vec<u8>,
    /// bytes on the wire (after content coding)
    wire: Vec<u8>,
    /// for multipart: offset in `wire` of the first byte that exceeds the limit (if any)
    mp_cross: Option<usize>,
}

fn body_for(ext: Ext, len: usize) -> (Vec<u8>, bool) {
    match ext {
        Ext::Bytes | Ext::PayloadLimited | Ext::BodyLimited => {
            // incompressible, so that coded wires are long enough for chunks >= 2049 B (the
            // decoder's blocking-pool path)
            (lcg_bytes(len, 7), true)
        }
        Ext::String => (text_bytes(len), true),
        Ext::Json | Ext::EitherJsonForm => match len {
            0 => (vec![], false),
            1 => (b"7".to_vec(), true),
            n => {
                let mut v = vec![b'"'];
                v.extend(std::iter::repeat(b'a').take(n - 2));
                v.push(b'"');
                (v, true)
            }
        },
        Ext::Form => match len {
            0 => (vec![], true),
            1 => (b"a".to_vec(), true),
            n => {
                let mut v = b"a=".to_vec();
                v.extend(std::iter::repeat(b'x').take(n - 2));
                (v, true)
            }
        },
        _ => ((0..len).map(|i| b'a' + (i % 23) as u8).collect(), true),
    }
}

fn build(case: &Case12) -> Built {
    let (body, _well_formed) = body_for(case.ext, case.len);
    if !case.ext.is_mp() {
        let wire = case.coding.encode(&body);
        return Built { body, wire, mp_cross: None };
    }
    // multipart envelope
    let mut w = Vec::new();
    let mut cross = None;
    let fields: Vec<(&str, &[u8])> = if case.ext == Ext::Mp2Total {
        let a = case.len.div_ceil(2);
        vec![("f", &body[..a]), ("g", &body[a..])]
    } else if case.ext.is_mp_repeated() {
        // the `len` bytes of the limited field are spread over its parts as evenly as possible
        // (so with len = limit + 1 every part alone is within the limit); `g` parts carry "n"
        let k = if case.ext == Ext::MpRepInterleaved3 { 3 } else { 2 };
        let mut parts: Vec<&[u8]> = vec![];
        let mut from = 0;
        for i in 0..k {
            let to = from + (case.len - from).div_ceil(k - i);
            parts.push(&body[from..to]);
            from = to;
        }
        let mut v: Vec<(&str, &[u8])> = vec![];
        for (i, p) in parts.into_iter().enumerate() {
            if i > 0 && case.ext != Ext::MpRepAdjacent {
                v.push(("g", &b"n"[..]));
            }
            v.push(("f", p));
        }
        v
    } else {
        vec![("f", &body[..])]
    };
    let mut consumed = 0usize;
    for (name, data) in &fields {
        w.extend_from_slice(format!("--{MP_BOUNDARY}\r\n").as_bytes());
        w.extend_from_slice(
            format!("content-disposition: form-data; name=\"{name}\"\r\n\r\n").as_bytes(),
        );
        let counted = !(case.ext.is_mp_repeated() && *name == "g");
        if counted && cross.is_none() && consumed + data.len() > case.limit {
            cross = Some(w.len() + (case.limit - consumed));
        }
        if counted {
            consumed += data.len();
        }
        w.extend_from_slice(data);
        w.extend_from_slice(b"\r\n");
    }
    w.extend_from_slice(format!("--{MP_BOUNDARY}--\r\n").as_bytes());
    Built { body, wire: w, mp_cross: cross }
}

fn cl_value(case: &Case12, wire_len: usize) -> Option<usize> {
    match case.cl {
        Cl::Absent => None,
        Cl::True => Some(wire_len),
        Cl::Small => Some(wire_len.saturating_sub(1).min(case.limit)),
        Cl::Plus1 => Some(wire_len + 1),
        Cl::OverLimit => Some(wire_len.max(case.limit) + 1),
    }
}

// ---------------------------------------------------------------------------------------------
// multipart form types (the per-field limit is a derive attribute, so one type per limit)

trait MpGet: actix_multipart::form::MultipartCollect + 'static {
    fn data(self) -> Vec<u8>;
}

macro_rules! mp_limited {
    ($($lim:literal, $n:literal => $text:ident, $bytes:ident;)*) => {
        $(
            #[derive(MultipartForm)]
            struct $text { #[multipart(limit = $lim)] f: Text<String> }
            impl MpGet for $text { fn data(self) -> Vec<u8> { self.f.0.into_bytes() } }
            #[derive(MultipartForm)]
            struct $bytes { #[multipart(limit = $lim)] f: MpBytes }
            impl MpGet for $bytes { fn data(self) -> Vec<u8> { self.f.data.to_vec() } }
        )*
        async fn mp_text_field(limit: usize, req: &HttpRequest, pl: &mut dev::Payload) -> Result<Vec<u8>, actix_web::Error> {
            match limit {
                $( $n => mp_run::<$text>(req, pl).await, )*
                _ => mc_core::machinery(format!("no multipart form type for field limit {limit}")),
            }
        }
        async fn mp_bytes_field(limit: usize, req: &HttpRequest, pl: &mut dev::Payload) -> Result<Vec<u8>, actix_web::Error> {
            match limit {
                $( $n => mp_run::<$bytes>(req, pl).await, )*
                _ => mc_core::machinery(format!("no multipart form type for field limit {limit}")),
            }
        }
        const MP_FIELD_LIMITS: &[usize] = &[$($n),*];
    };
}

mp_limited! {
    "0B", 0 => MpT0, MpB0;
    "1B", 1 => MpT1, MpB1;
    "2B", 2 => MpT2, MpB2;
    "3B", 3 => MpT3, MpB3;
    "8B", 8 => MpT8, MpB8;
    "4B", 4 => MpT4, MpB4;
    "5B", 5 => MpT5, MpB5;
    "10B", 10 => MpT10, MpB10;
    "16B", 16 => MpT16, MpB16;
    "64B", 64 => MpT64, MpB64;
    "100B", 100 => MpT100, MpB100;
    "1000B", 1000 => MpT1000, MpB1000;
    "4096B", 4096 => MpT4096, MpB4096;
}

macro_rules! mp_renamed {
    ($($lim:literal, $n:literal => $ty:ident;)*) => {
        $(
            #[derive(MultipartForm)]
            struct $ty { #[multipart(rename = "f", limit = $lim)] payload_bytes: MpBytes }
            impl MpGet for $ty { fn data(self) -> Vec<u8> { self.payload_bytes.data.to_vec() } }
        )*
        async fn mp_renamed_field(limit: usize, req: &HttpRequest, pl: &mut dev::Payload) -> Result<Vec<u8>, actix_web::Error> {
            match limit {
                $( $n => mp_run::<$ty>(req, pl).await, )*
                _ => mc_core::machinery(format!("no renamed-field multipart form type for field limit {limit}")),
            }
        }
    };
}

mp_renamed! {
    "0B", 0 => MpN0;
    "1B", 1 => MpN1;
    "2B", 2 => MpN2;
    "3B", 3 => MpN3;
    "8B", 8 => MpN8;
    "4B", 4 => MpN4;
    "5B", 5 => MpN5;
    "10B", 10 => MpN10;
    "16B", 16 => MpN16;
    "64B", 64 => MpN64;
    "100B", 100 => MpN100;
    "1000B", 1000 => MpN1000;
    "4096B", 4096 => MpN4096;
}

macro_rules! mp_tempfile {
    ($($lim:literal, $n:literal => $ty:ident;)*) => {
        $(
            #[derive(MultipartForm)]
            struct $ty { #[multipart(limit = $lim)] f: actix_multipart::form::tempfile::TempFile }
            impl MpGet for $ty {
                fn data(self) -> Vec<u8> {
                    use std::io::{Read as _, Seek as _};
                    let mut file = self.f.file.reopen().unwrap_or_else(|e| mc_core::machinery(format!("reopen temp file: {e}")));
                    let _ = file.seek(std::io::SeekFrom::Start(0));
                    let mut v = vec![];
                    file.read_to_end(&mut v).unwrap_or_else(|e| mc_core::machinery(format!("read temp file: {e}")));
                    v
                }
            }
        )*
        async fn mp_tempfile_field(limit: usize, req: &HttpRequest, pl: &mut dev::Payload) -> Result<Vec<u8>, actix_web::Error> {
            match limit {
                $( $n => mp_run::<$ty>(req, pl).await, )*
                _ => mc_core::machinery(format!("no temp-file multipart form type for field limit {limit}")),
            }
        }
    };
}

mp_tempfile! {
    "0B", 0 => MpF0;
    "1B", 1 => MpF1;
    "2B", 2 => MpF2;
    "8B", 8 => MpF8;
    "64B", 64 => MpF64;
}

macro_rules! mp_repeated {
    ($($lim:literal, $n:literal => $ty:ident;)*) => {
        $(
            #[derive(MultipartForm)]
            struct $ty { #[multipart(limit = $lim)] f: Vec<MpBytes>, #[allow(dead_code)] g: Vec<Text<String>> }
            impl MpGet for $ty { fn data(self) -> Vec<u8> { self.f.iter().flat_map(|p| p.data.to_vec()).collect() } }
        )*
        async fn mp_repeated_field(limit: usize, req: &HttpRequest, pl: &mut dev::Payload) -> Result<Vec<u8>, actix_web::Error> {
            match limit {
                $( $n => mp_run::<$ty>(req, pl).await, )*
                _ => mc_core::machinery(format!("no repeated-field multipart form type for field limit {limit}")),
            }
        }
    };
}

mp_repeated! {
    "0B", 0 => MpR0;
    "1B", 1 => MpR1;
    "2B", 2 => MpR2;
    "3B", 3 => MpR3;
    "8B", 8 => MpR8;
    "4B", 4 => MpR4;
    "5B", 5 => MpR5;
    "10B", 10 => MpR10;
    "16B", 16 => MpR16;
    "64B", 64 => MpR64;
    "100B", 100 => MpR100;
    "1000B", 1000 => MpR1000;
    "4096B", 4096 => MpR4096;
}

#[derive(MultipartForm)]
struct MpTextFree {
    f: Text<String>,
}
impl MpGet for MpTextFree {
    fn data(self) -> Vec<u8> {
        self.f.0.into_bytes()
    }
}
#[derive(MultipartForm)]
struct MpBytesFree {
    f: MpBytes,
}
impl MpGet for MpBytesFree {
    fn data(self) -> Vec<u8> {
        self.f.data.to_vec()
    }
}
#[derive(MultipartForm)]
struct Mp2Free {
    f: Text<String>,
    g: MpBytes,
}
impl MpGet for Mp2Free {
    fn data(self) -> Vec<u8> {
        let mut v = self.f.0.into_bytes();
        v.extend_from_slice(&self.g.data);
        v
    }
}

async fn mp_run<T: MpGet>(req: &HttpRequest, pl: &mut dev::Payload) -> Result<Vec<u8>, actix_web::Error> {
    MultipartForm::<T>::from_request(req, pl).await.map(|f| f.into_inner().data())
}

// ---------------------------------------------------------------------------------------------
// scripted MessageBody for body::to_bytes_limited

struct ScriptMsgBody {
    src: Source,
    size: BodySize,
}

impl MessageBody for ScriptMsgBody {
    type Error = PayloadError;
    fn size(&self) -> BodySize {
        self.size
    }
    fn poll_next(
        self: std::pin::Pin<&mut Self>,
        cx: &mut Context<'_>,
    ) -> Poll<Option<Result<Bytes, PayloadError>>> {
        use futures_core::Stream as _;
        std::pin::Pin::new(&mut self.get_mut().src).poll_next(cx)
    }
}

// ---------------------------------------------------------------------------------------------
// observation

#[derive(Clone, Debug, PartialEq, Eq, Serialize, Deserialize)]
pub enum Outcome {
    /// success; `equal` = extracted value equals the original decoded body
    Ok { equal: bool, len: usize },
    /// the extractor's overflow error (which variant)
    Overflow(String),
    /// any other error (variant name only)
    Other(String),
    /// no result: poll bound exceeded or stalled without a wake-up
    NoOutcome(String),
    Panic(String),
}

impl Outcome {
    fn class(&self) -> String {
        match self {
            Outcome::Ok { equal: true, .. } => "ok".into(),
            Outcome::Ok { equal: false, .. } => "ok-wrong-value".into(),
            Outcome::Overflow(_) => "overflow".into(),
            Outcome::Other(k) => format!("error:{k}"),
            Outcome::NoOutcome(k) => format!("no-outcome:{k}"),
            Outcome::Panic(_) => "panic".into(),
        }
    }
}

#[derive(Clone, Debug, PartialEq, Eq, Serialize, Deserialize)]
pub struct Obs12 {
    pub outcome: Outcome,
    pub wire_len: usize,
    pub n_chunks: usize,
    pub max_chunk: usize,
    pub pulled_bytes: usize,
    pub pulled_chunks: usize,
    /// greatest number of source bytes the extractor may have pulled (clause d); None = no bound
    /// applies (body within limit)
    pub allowed_pull: Option<usize>,
    pub declared_cl: Option<usize>,
    pub polls: usize,
}

impl Obs12 {
    /// the number of polls depends on when a blocking-pool hand-off completes (coded bodies with
    /// chunks >= 2049 B); everything else must be identical between runs
    fn canon(&self) -> Obs12 {
        let mut o = self.clone();
        o.polls = 0;
        o
    }
}

fn variant_name(dbg: &str) -> String {
    dbg.chars().take_while(|c| c.is_ascii_alphanumeric() || *c == '_').collect()
}

fn classify_web_error(err: &actix_web::Error) -> Outcome {
    if let Some(e) = err.as_error::<PayloadError>() {
        return match e {
            PayloadError::Overflow => Outcome::Overflow("PayloadError::Overflow".into()),
            o => Outcome::Other(format!("PayloadError::{}", variant_name(&format!("{o:?}")))),
        };
    }
    if let Some(e) = err.as_error::<JsonPayloadError>() {
        return match e {
            JsonPayloadError::Overflow { .. } => Outcome::Overflow("JsonPayloadError::Overflow".into()),
            JsonPayloadError::OverflowKnownLength { .. } => {
                Outcome::Overflow("JsonPayloadError::OverflowKnownLength".into())
            }
            JsonPayloadError::Payload(PayloadError::Overflow) => {
                Outcome::Overflow("JsonPayloadError::Payload(Overflow)".into())
            }
            o => Outcome::Other(format!("JsonPayloadError::{}", variant_name(&format!("{o:?}")))),
        };
    }
    if let Some(e) = err.as_error::<UrlencodedError>() {
        return match e {
            UrlencodedError::Overflow { .. } => Outcome::Overflow("UrlencodedError::Overflow".into()),
            UrlencodedError::Payload(PayloadError::Overflow) => {
                Outcome::Overflow("UrlencodedError::Payload(Overflow)".into())
            }
            o => Outcome::Other(format!("UrlencodedError::{}", variant_name(&format!("{o:?}")))),
        };
    }
    if let Some(e) = err.as_error::<MultipartError>() {
        return match e {
            MultipartError::Payload(PayloadError::Overflow) => {
                Outcome::Overflow("MultipartError::Payload(Overflow)".into())
            }
            o => Outcome::Other(format!("MultipartError::{}", variant_name(&format!("{o:?}")))),
        };
    }
    Outcome::Other(format!("other:{}", variant_name(&format!("{:?}", err.as_response_error().status_code()))))
}

fn ok_outcome(got: &[u8], want: &[u8]) -> Outcome {
    Outcome::Ok { equal: got == want, len: got.len() }
}

// ---------------------------------------------------------------------------------------------
// running one case against the real extractor

async fn extract(case: &Case12, req: &HttpRequest, pl: &mut dev::Payload, want: &[u8]) -> Outcome {
    match case.ext {
        Ext::Bytes => match web::Bytes::from_request(req, pl).await {
            Ok(b) => ok_outcome(&b, want),
            Err(e) => classify_web_error(&e),
        },
        Ext::String => match String::from_request(req, pl).await {
            Ok(s) => ok_outcome(s.as_bytes(), want),
            Err(e) => classify_web_error(&e),
        },
        Ext::Json => match web::Json::<serde_json::Value>::from_request(req, pl).await {
            Ok(v) => {
                let expect: Result<serde_json::Value, _> = serde_json::from_slice(want);
                match expect {
                    Ok(x) => Outcome::Ok { equal: x == v.0, len: want.len() },
                    Err(_) => Outcome::Ok { equal: false, len: want.len() },
                }
            }
            Err(e) => classify_web_error(&e),
        },
        Ext::Form => match web::Form::<HashMap<String, String>>::from_request(req, pl).await {
            Ok(v) => {
                let mut expect = HashMap::new();
                if !want.is_empty() {
                    let s = std::str::from_utf8(want).unwrap();
                    let (k, val) = s.split_once('=').unwrap_or((s, ""));
                    expect.insert(k.to_string(), val.to_string());
                }
                Outcome::Ok { equal: expect == v.0, len: want.len() }
            }
            Err(e) => classify_web_error(&e),
        },
        Ext::EitherJsonForm => {
            type E = actix_web::Either<web::Json<serde_json::Value>, web::Form<HashMap<String, String>>>;
            match E::from_request(req, pl).await {
                Ok(actix_web::Either::Left(v)) => {
                    let expect: Result<serde_json::Value, _> = serde_json::from_slice(want);
                    Outcome::Ok { equal: expect.map(|x| x == v.0).unwrap_or(false), len: want.len() }
                }
                Ok(actix_web::Either::Right(_)) => Outcome::Ok { equal: false, len: want.len() },
                Err(e) => {
                    let e: actix_web::Error = e.into();
                    classify_web_error(&e)
                }
            }
        }
        Ext::PayloadLimited => {
            let p = web::Payload::from_request(req, pl).await.unwrap();
            match p.to_bytes_limited(case.limit).await {
                Ok(Ok(b)) => ok_outcome(&b, want),
                Ok(Err(e)) => classify_web_error(&e),
                Err(_) => Outcome::Overflow("BodyLimitExceeded".into()),
            }
        }
        Ext::BodyLimited => mc_core::machinery("BodyLimited is run by run_body_limited"),
        Ext::MpTextField => match mp_text_field(case.limit, req, pl).await {
            Ok(b) => ok_outcome(&b, want),
            Err(e) => classify_web_error(&e),
        },
        Ext::MpBytesField => match mp_bytes_field(case.limit, req, pl).await {
            Ok(b) => ok_outcome(&b, want),
            Err(e) => classify_web_error(&e),
        },
        Ext::MpTotal => match mp_run::<MpTextFree>(req, pl).await {
            Ok(b) => ok_outcome(&b, want),
            Err(e) => classify_web_error(&e),
        },
        Ext::MpMemory => match mp_run::<MpBytesFree>(req, pl).await {
            Ok(b) => ok_outcome(&b, want),
            Err(e) => classify_web_error(&e),
        },
        Ext::MpRepAdjacent | Ext::MpRepInterleaved | Ext::MpRepInterleaved3 => {
            match mp_repeated_field(case.limit, req, pl).await {
                Ok(b) => ok_outcome(&b, want),
                Err(e) => classify_web_error(&e),
            }
        }
        Ext::MpRenamedField => match mp_renamed_field(case.limit, req, pl).await {
            Ok(b) => ok_outcome(&b, want),
            Err(e) => classify_web_error(&e),
        },
        Ext::MpFieldBytes => {
            use futures_util::TryStreamExt as _;
            let mut mp = actix_multipart::Multipart::new(req.headers(), pl.take());
            match mp.try_next().await {
                Ok(Some(mut field)) => match field.bytes(case.limit).await {
                    Ok(Ok(b)) => ok_outcome(&b, want),
                    Ok(Err(e)) => Outcome::Other(format!("MultipartError::{}", variant_name(&format!("{e:?}")))),
                    Err(_) => Outcome::Overflow("LimitExceeded".into()),
                },
                Ok(None) => Outcome::Other("no field".into()),
                Err(e) => Outcome::Other(format!("MultipartError::{}", variant_name(&format!("{e:?}")))),
            }
        }
        Ext::MpTempFileField => match mp_tempfile_field(case.limit, req, pl).await {
            Ok(b) => ok_outcome(&b, want),
            Err(e) => classify_web_error(&e),
        },
        Ext::Mp2Total => match mp_run::<Mp2Free>(req, pl).await {
            Ok(b) => ok_outcome(&b, want),
            Err(e) => classify_web_error(&e),
        },
    }
}

fn request_for(case: &Case12, wire_len: usize) -> HttpRequest {
    let mut r = TestRequest::post().uri("/x");
    let ctype = match case.ext {
        Ext::Json | Ext::EitherJsonForm => Some("application/json".to_string()),
        Ext::Form => Some("application/x-www-form-urlencoded".to_string()),
        e if e.is_mp() => Some(format!("multipart/form-data; boundary={MP_BOUNDARY}")),
        _ => None,
    };
    if let Some(ct) = ctype {
        r = r.insert_header((header::CONTENT_TYPE, ct));
    }
    if case.coding != Coding::Identity {
        r = r.insert_header((header::CONTENT_ENCODING, case.coding.token()));
    }
    if let Some(v) = cl_value(case, wire_len) {
        r = r.insert_header((header::CONTENT_LENGTH, v.to_string()));
    }
    r = match case.ext {
        Ext::Bytes | Ext::String | Ext::EitherJsonForm => r.app_data(web::PayloadConfig::new(case.limit)),
        Ext::Json => r.app_data(web::JsonConfig::default().limit(case.limit)),
        Ext::Form => r.app_data(web::FormConfig::default().limit(case.limit)),
        Ext::MpTotal | Ext::Mp2Total => {
            r.app_data(MultipartFormConfig::default().total_limit(case.limit))
        }
        Ext::MpMemory => r.app_data(MultipartFormConfig::default().memory_limit(case.limit)),
        _ => r,
    };
    if case.ext.is_mp() && case.mp_buf != 0 {
        r = r.app_data(MultipartConfig::default().buffer_limit(case.mp_buf));
    }
    r.to_http_request()
}

/// Greatest number of source bytes an extractor that stops at the first over-limit chunk can have
/// pulled. "One incoming chunk" = the chunk the (decoded) payload stream hands to the extractor;
/// the mapping source-chunk → decoded-chunk is taken from a separate run of the real `Decompress`
/// wrapper alone on the same source.
async fn allowed_pull(case: &Case12, built: &Built, req: &HttpRequest, lens: &[usize]) -> Option<usize> {
    if built.body.len() <= case.limit {
        return None;
    }
    if case.ext == Ext::MpFieldBytes {
        // documented: "the full data stream is exhausted before returning the error so that
        // subsequent fields can still be read" (the data is discarded, not held)
        return None;
    }
    if case.ext.is_mp() {
        // the multipart parser has its own bounded read-ahead buffer (MultipartConfig::buffer_limit,
        // a separately configured bound) in front of the field reader: the reader must stop at the
        // first over-limit field chunk, so the source is never pulled further than
        // (end of the source chunk holding the first over-limit byte) + parser buffer + one chunk.
        let cross = built.mp_cross.expect("over-limit multipart body has a crossing offset");
        let mut end = 0;
        for l in lens {
            end += l;
            if end > cross {
                break;
            }
        }
        let buf = if case.mp_buf == 0 { MP_DEFAULT_BUF } else { case.mp_buf };
        let max_chunk = lens.iter().copied().max().unwrap_or(0);
        return Some(end + buf + max_chunk);
    }
    if case.coding == Coding::Identity || !case.ext.decompresses() {
        let mut end = 0;
        for l in lens {
            end += l;
            if end > case.limit {
                return Some(end);
            }
        }
        return Some(end);
    }
    // coded: trace the real Decompress alone
    let chunks = case.chunking.split(&built.wire);
    let (src, stats) = Source::new(chunks, false);
    let mut dec = dev::Decompress::from_headers(src, req.headers());
    let mut total = 0usize;
    let st = stats.clone();
    let fut = async move {
        use futures_util::StreamExt as _;
        while let Some(item) = dec.next().await {
            match item {
                Ok(b) => {
                    total += b.len();
                    if total > case.limit {
                        return Some(st.pulled_bytes.get());
                    }
                }
                Err(_) => return None,
            }
        }
        None
    };
    match drive(fut, &[stats], 100_000 + 8 * lens.len()).await {
        Ok((v, _)) => v.or(Some(built.wire.len())),
        Err(_) => Some(built.wire.len()),
    }
}

pub async fn run_case(case: &Case12) -> Obs12 {
    let built = build(case);
    let lens = case.chunking.lens(built.wire.len());
    let chunks = case.chunking.split(&built.wire);
    let n_chunks = chunks.len();
    let max_chunk = lens.iter().copied().max().unwrap_or(0);
    let req = request_for(case, built.wire.len());
    let allowed = allowed_pull(case, &built, &req, &lens).await;
    let (src, stats) = Source::new(chunks, case.pending);
    let max_polls = 2_000 + 40 * n_chunks;

    let res = if case.ext == Ext::BodyLimited {
        let size = match cl_value(case, built.wire.len()) {
            None => BodySize::Stream,
            Some(n) => BodySize::Sized(n as u64),
        };
        let body = ScriptMsgBody { src, size };
        let limit = case.limit;
        let want = built.body.clone();
        let fut = AssertUnwindSafe(async move {
            match actix_web::body::to_bytes_limited(body, limit).await {
                Ok(Ok(b)) => ok_outcome(&b, &want),
                Ok(Err(e)) => Outcome::Other(format!("PayloadError::{}", variant_name(&format!("{e:?}")))),
                Err(_) => Outcome::Overflow("BodyLimitExceeded".into()),
            }
        })
        .catch_unwind();
        drive(fut, &[stats.clone()], max_polls).await
    } else {
        let mut pl = dev::Payload::Stream { payload: Box::pin(src) as actix_http::BoxedPayloadStream };
        let fut = AssertUnwindSafe(extract(case, &req, &mut pl, &built.body)).catch_unwind();
        drive(fut, &[stats.clone()], max_polls).await
    };
    let (outcome, polls) = match res {
        Ok((Ok(o), p)) => (o, p),
        Ok((Err(p), n)) => (Outcome::Panic(panic_msg(p)), n),
        Err(DriveErr::PollBound) => (Outcome::NoOutcome("poll-bound".into()), max_polls),
        Err(DriveErr::Stalled) => (Outcome::NoOutcome("stalled".into()), 0),
    };
    Obs12 {
        outcome,
        wire_len: built.wire.len(),
        n_chunks,
        max_chunk,
        pulled_bytes: stats.pulled_bytes.get(),
        pulled_chunks: stats.pulled_chunks.get(),
        allowed_pull: allowed,
        declared_cl: cl_value(case, built.wire.len()),
        polls,
    }
}

// ---------------------------------------------------------------------------------------------
// oracle (per case)

fn cl_class(case: &Case12) -> &'static str {
    match case.cl {
        Cl::Absent => "cl-absent",
        Cl::True => "cl-true",
        Cl::Small => "cl-lie-small",
        Cl::Plus1 => "cl-lie-plus1",
        Cl::OverLimit => "cl-lie-over-limit",
    }
}

fn coding_class(case: &Case12) -> &'static str {
    if case.coding == Coding::Identity {
        "identity"
    } else {
        "coded"
    }
}

/// Signature = who (extractor; all multipart-form variants share the parser, and ignore the
/// request Content-Length) + what fails + for the others which Content-Length / coding class.
fn sig(case: &Case12, detail: &str) -> String {
    if case.ext.is_mp() {
        if mp_delimiter_split_after_4(case) {
            // known root cause (field.rs read_stream, buffer == "\r\n--"): keep it apart so that
            // the known-finding entry masks nothing else
            format!("multipart-form:delimiter-split-after-4-bytes:{detail}")
        } else {
            format!("multipart-form:{detail}")
        }
    } else {
        format!("{}:{}:{}:{}", case.ext.name(), detail, cl_class(case), coding_class(case))
    }
}

/// true if the (gated) source pauses exactly 4 bytes into a `\r\n--boundary` delimiter
fn mp_delimiter_split_after_4(case: &Case12) -> bool {
    if !case.pending {
        return false;
    }
    let built = build(case);
    let needle = format!("\r\n--{MP_BOUNDARY}");
    let mut ends = BTreeSet::new();
    let mut e = 0;
    for l in case.chunking.lens(built.wire.len()) {
        e += l;
        ends.insert(e);
    }
    let mut from = 0;
    while let Some(i) = find(&built.wire[from..], needle.as_bytes()) {
        if ends.contains(&(from + i + 4)) {
            return true;
        }
        from += i + 1;
    }
    false
}

fn find(hay: &[u8], needle: &[u8]) -> Option<usize> {
    hay.windows(needle.len()).position(|w| w == needle)
}

fn viol(case: &Case12, obs: &Obs12, clause: &str, detail: &str, what: String) -> Violation {
    Violation {
        property: "C12".into(),
        clause: clause.into(),
        signature: sig(case, detail),
        what,
        replay: json!({"kind": "single", "case": case, "observed": obs}),
        weight: (obs.wire_len as u64) * 16 + obs.n_chunks as u64 + if case.pending { 1 } else { 0 },
    }
}

pub fn judge(case: &Case12, obs: &Obs12) -> Vec<Violation> {
    let mut out = Vec::new();
    let over = case.len > case.limit;
    let lying = matches!(case.cl, Cl::Small | Cl::Plus1 | Cl::OverLimit)
        && obs.declared_cl != Some(obs.wire_len);
    let desc = format!(
        "{} limit={} decoded_len={} coding={} wire_len={} chunks={} ({}) pending={} content-length={:?}",
        case.ext.name(),
        case.limit,
        case.len,
        case.coding.token(),
        obs.wire_len,
        obs.n_chunks,
        case.shape,
        case.pending,
        obs.declared_cl
    );
    match &obs.outcome {
        Outcome::Ok { equal, len } => {
            if over {
                out.push(viol(case, obs, "a", "accepted-over-limit",
                    format!("extractor succeeded although the decoded body ({} B) exceeds the limit ({} B): {desc}", case.len, case.limit)));
            } else if !*equal && !(case.ext == Ext::BodyLimited && lying) {
                out.push(viol(case, obs, "a", "value-differs",
                    format!("extractor succeeded with a value different from the original body (got {len} B): {desc}")));
            } else if *len > case.limit {
                out.push(viol(case, obs, "a", "accepted-over-limit",
                    format!("extractor returned {len} B, more than the limit: {desc}")));
            }
        }
        Outcome::Overflow(kind) => {
            // statement: succeeds iff within the limit. Completeness is demanded only when no
            // declared length exceeds the limit (a declared over-limit length may be refused
            // up front).
            let declared_over = !case.ext.is_mp() && obs.declared_cl.map(|v| v > case.limit).unwrap_or(false);
            if !over && !declared_over {
                out.push(viol(case, obs, "a2", "within-limit-rejected-as-overflow",
                    format!("decoded body ({} B) is within the limit ({} B) and no declared length exceeds it, yet the extractor failed with {kind}: {desc}", case.len, case.limit)));
            }
        }
        Outcome::Other(kind) => {
            if over {
                out.push(viol(case, obs, "b", &format!("over-limit-not-overflow:{kind}"),
                    format!("decoded body ({} B) exceeds the limit ({} B) but the error is {kind}, not the overflow error: {desc}", case.len, case.limit)));
            }
            // a well-formed body within the limit that fails with a NON-overflow error is outside
            // the statement (it only speaks about success and about the overflow error); such
            // cases are counted in the evidence (`within_limit_other_failures`), not reported.
        }
        Outcome::NoOutcome(kind) => {
            out.push(viol(case, obs, if over { "b" } else { "a2" }, &format!("no-outcome:{kind}"),
                format!("extraction produced no result ({kind}): {desc}")));
        }
        Outcome::Panic(msg) => {
            out.push(viol(case, obs, "panic", "panic", format!("extractor panicked: {msg}: {desc}")));
        }
    }
    if let Some(allowed) = obs.allowed_pull {
        if obs.pulled_bytes > allowed {
            out.push(viol(case, obs, "d", "pulled-past-limit",
                format!("source was pulled for {} B ({} chunks) although the limit was already exceeded after {} B (limit {} B + the one chunk that crossed it): {desc}",
                    obs.pulled_bytes, obs.pulled_chunks, allowed, case.limit)));
        }
    }
    out
}

// ---------------------------------------------------------------------------------------------
// enumeration

fn lens_for(limit: usize) -> Vec<usize> {
    let mut v = vec![];
    if limit > 0 {
        v.push(limit - 1);
    }
    v.extend([limit, limit + 1, 4 * limit, 64 * limit]);
    v.sort_unstable();
    v.dedup();
    v
}

/// Chunkings of a wire body of `n` bytes; `b` = wire offset of the limit boundary (the first
/// `b` bytes are within the limit). Returns (chunking, shape label).
fn chunkings(n: usize, b: usize, full_compositions_upto: usize, ones_upto: usize) -> Vec<(Chunking, String)> {
    let mut out: Vec<(Chunking, String)> = Vec::new();
    if n == 0 {
        out.push((Chunking::Lens(vec![]), "no-chunks".into()));
        out.push((Chunking::Lens(vec![0]), "one-empty-chunk".into()));
        return out;
    }
    if n <= full_compositions_upto {
        for mask in 0..(1u64 << (n - 1)) {
            let c = Chunking::composition(n, mask);
            let label = format!("comp:{:?}", c.lens(n));
            out.push((c, label));
        }
        return out;
    }
    let mut seen = BTreeSet::new();
    let mut push = |c: Chunking, label: String, out: &mut Vec<(Chunking, String)>| {
        let key = c.lens(n);
        if seen.insert(key) {
            out.push((c, label));
        }
    };
    push(Chunking::whole(n), "whole".into(), &mut out);
    if n <= ones_upto {
        push(Chunking::Ones, "ones".into(), &mut out);
    } else {
        push(Chunking::OnesUntil((b + 2).min(n)), "ones-until-limit+2".into(), &mut out);
    }
    // every single cut around the boundary
    for (d, name) in [(-1i64, "L-1"), (0, "L"), (1, "L+1")] {
        let p = b as i64 + d;
        if p > 0 && (p as usize) < n {
            push(Chunking::cuts(n, &[p as usize]), format!("cut@{name}"), &mut out);
        }
    }
    // two cuts straddling the boundary
    let bi = b as i64;
    for (a, z, name) in [
        (bi - 1, bi + 1, "L-1,L+1"),
        (1, bi + 1, "1,L+1"),
        (bi - 1, n as i64 - 1, "L-1,n-1"),
        (bi / 2, bi + (n as i64 - bi) / 2, "L/2,mid-rest"),
        (bi, bi + 1, "L,L+1"),
    ] {
        if a > 0 && z > a && (z as usize) < n {
            push(Chunking::cuts(n, &[a as usize, z as usize]), format!("cuts@{name}"), &mut out);
        }
    }
    push(Chunking::Every(7), "every7".into(), &mut out);
    if n > 30_000 {
        // chunk sizes at which a growing collection buffer is re-allocated between chunks
        for k in [8_192usize, 10_923, 16_384, 20_000] {
            push(Chunking::Every(k), format!("every{k}"), &mut out);
        }
    }
    if n > 2049 {
        push(Chunking::Every(2049), "every2049".into(), &mut out);
        push(Chunking::Every(2048), "every2048".into(), &mut out);
    }
    out
}

/// multipart: data-region compositions (envelope head in one chunk, the `len` data bytes cut in
/// every way, the tail in one chunk) for small fields, in addition to the generic set.
fn mp_chunkings(case: &Case12, built: &Built, full_upto: usize, ones_upto: usize) -> Vec<(Chunking, String)> {
    let n = built.wire.len();
    // first byte of field f's data
    let head = format!("--{MP_BOUNDARY}\r\ncontent-disposition: form-data; name=\"f\"\r\n\r\n").len();
    let b = (head + case.limit).min(n);
    let mut out = chunkings(n, b, 0, ones_upto);
    if case.ext != Ext::Mp2Total && !case.ext.is_mp_repeated() && case.len >= 1 && case.len <= full_upto {
        for mask in 0..(1u64 << (case.len - 1)) {
            let mut cuts = vec![head];
            cuts.extend((1..case.len).filter(|i| mask >> (i - 1) & 1 == 1).map(|i| head + i));
            cuts.push(head + case.len);
            let c = Chunking::cuts(n, &cuts);
            let label = format!("mp-data-comp:{:?}", &c.lens(n)[1..]);
            out.push((c, label));
        }
    }
    out
}

pub fn enumerate(tier: &str) -> Vec<Case12> {
    let thorough = tier == "thorough";
    let limits: &[usize] =
        if thorough { &[0, 1, 2, 3, 4, 5, 8, 10, 16, 64, 100, 1000, 4096] } else { &[0, 1, 2, 8, 64] };
    let full_upto = if thorough { 16 } else { 10 };
    let ones_upto = if thorough { 16_384 } else { 4_096 };
    let mut cases = Vec::new();
    // limits above the 32 KiB initial allocation of the collecting buffers (non-multipart only)
    let big_limits: &[usize] = &[32_769, 50_000];
    for ext in Ext::ALL {
        for &limit in limits.iter().chain(big_limits.iter()) {
            let big = limit > 30_000;
            if big && ext.is_mp() {
                continue;
            }
            if ext == Ext::MpTempFileField && !(thorough && [0usize, 1, 2, 8, 64].contains(&limit) || [0usize, 1, 2, 8, 64].contains(&limit)) {
                continue;
            }
            if (matches!(ext, Ext::MpTextField | Ext::MpBytesField | Ext::MpRenamedField) || ext.is_mp_repeated()) && !MP_FIELD_LIMITS.contains(&limit) {
                continue;
            }
            let lens = if big { vec![limit - 1, limit, limit + 1, limit + limit / 5] } else { lens_for(limit) };
            for len in lens {
                let codings: Vec<Coding> = if ext.decompresses() && !big && (thorough || limit == 8 || limit == 64) {
                    Coding::ALL.to_vec()
                } else {
                    vec![Coding::Identity]
                };
                let mp_bufs: &[usize] = if ext.is_mp() { &[0, 128] } else { &[0] };
                for coding in codings {
                    for &mp_buf in mp_bufs {
                        let proto = Case12 {
                            ext,
                            limit,
                            len,
                            coding,
                            chunking: Chunking::Lens(vec![]),
                            shape: String::new(),
                            pending: false,
                            cl: Cl::Absent,
                            mp_buf,
                        };
                        let built = build(&proto);
                        let n = built.wire.len();
                        let chs = if ext.is_mp() {
                            mp_chunkings(&proto, &built, if thorough { 12 } else { 8 }, ones_upto)
                        } else if coding == Coding::Identity {
                            chunkings(n, limit.min(n), full_upto, ones_upto)
                        } else {
                            // coded wire: the limit boundary has no fixed wire offset; use every
                            // single cut for short wires and the generic set around the middle
                            let mut v = chunkings(n, n / 2, 0, ones_upto);
                            if n <= 40 {
                                for p in 1..n {
                                    v.push((Chunking::cuts(n, &[p]), format!("coded-cut@{p}")));
                                }
                            }
                            v
                        };
                        for (chunking, shape) in chs {
                            if big && (shape.starts_with("ones") || shape == "every7") {
                                continue;
                            }
                            let multi = chunking.lens(n).len() > 1;
                            for pending in [false, true] {
                                if pending && !multi && n > 64 {
                                    // Pending on a single-chunk body adds nothing for long bodies
                                    continue;
                                }
                                let mut seen_cl = BTreeSet::new();
                                for cl in [Cl::Absent, Cl::True, Cl::Small, Cl::Plus1, Cl::OverLimit] {
                                    let c = Case12 {
                                        chunking: chunking.clone(),
                                        shape: shape.clone(),
                                        pending,
                                        cl,
                                        ..proto.clone()
                                    };
                                    if !seen_cl.insert(cl_value(&c, n)) {
                                        continue; // same header value as an earlier variant
                                    }
                                    if ext.is_mp() && !matches!(cl, Cl::Absent | Cl::True) && mp_buf != 0 {
                                        continue;
                                    }
                                    if ext == Ext::BodyLimited && cl == Cl::Small {
                                        // a MessageBody whose size() under-reports is a broken
                                        // body, not a lying peer: not part of the statement
                                        continue;
                                    }
                                    cases.push(c);
                                }
                            }
                        }
                    }
                }
            }
        }
    }
    cases
}

// ---------------------------------------------------------------------------------------------
// clause (c): outcome independent of chunking

fn group_key(c: &Case12) -> String {
    format!("{:?}|{}|{}|{:?}|{:?}|{}", c.ext, c.limit, c.len, c.coding, c.cl, c.mp_buf)
}

fn length_class(c: &Case12) -> &'static str {
    if c.limit > 0 && c.len == c.limit - 1 {
        "limit-1"
    } else if c.len == c.limit {
        "limit"
    } else if c.len == c.limit + 1 {
        "limit+1"
    } else if c.len == 4 * c.limit {
        "4xlimit"
    } else {
        "64xlimit"
    }
}

fn judge_groups(cases: &[Case12], obs: &[Obs12]) -> Vec<Violation> {
    let mut groups: BTreeMap<String, Vec<usize>> = BTreeMap::new();
    for (i, c) in cases.iter().enumerate() {
        groups.entry(group_key(c)).or_default().push(i);
    }
    let mut out = Vec::new();
    for idx in groups.values() {
        let mut by_class: BTreeMap<String, usize> = BTreeMap::new();
        for &i in idx {
            let cl = obs[i].outcome.class();
            let e = by_class.entry(cl).or_insert(i);
            // keep the simplest representative
            if (obs[i].n_chunks, cases[i].pending) < (obs[*e].n_chunks, cases[*e].pending) {
                *e = i;
            }
        }
        if by_class.len() > 1 {
            let reps: Vec<usize> = by_class.values().copied().collect();
            let (a, b) = (reps[0], reps[1]);
            let classes: Vec<String> = by_class.keys().cloned().collect();
            let ca = &cases[a];
            let sig_case = reps.iter().map(|&i| &cases[i]).find(|c| c.ext.is_mp() && mp_delimiter_split_after_4(c)).unwrap_or(ca);
            out.push(Violation {
                property: "C12".into(),
                clause: "c".into(),
                signature: sig(sig_case, &format!("chunking-dependent:{}", classes.join("|"))),
                what: format!(
                    "same body/limit/headers, different chunking, different outcome: {} limit={} len={} coding={} {}: [{}] -> {} but [{}] -> {}",
                    ca.ext.name(), ca.limit, ca.len, ca.coding.token(), cl_class(ca),
                    cases[a].shape, obs[a].outcome.class(), cases[b].shape, obs[b].outcome.class()
                ),
                replay: json!({"kind": "pair", "a": cases[a], "b": cases[b], "observed_a": obs[a], "observed_b": obs[b]}),
                weight: (obs[a].wire_len as u64) * 16 + (obs[a].n_chunks + obs[b].n_chunks) as u64,
            });
        }
    }
    out
}

// ---------------------------------------------------------------------------------------------
// entry points

fn run_capped(cases: &[Case12], deadline: Option<std::time::Instant>) -> Vec<Option<Obs12>> {
    let order = case_order(cases.len());
    run_pool::<Obs12>(cases.len(), &order, deadline, |feed| {
        actix_rt::System::new().block_on(async {
            while let Some(i) = feed.next() {
                let o = run_case(&cases[i]).await;
                feed.put(i, o);
            }
        });
    })
}

fn run_all(cases: &[Case12]) -> Vec<Obs12> {
    run_capped(cases, None)
        .into_iter()
        .enumerate()
        .map(|(i, o)| o.unwrap_or_else(|| mc_core::machinery(format!("case {i} was not executed"))))
        .collect()
}

pub fn main(tier: &str, wall_cap: Option<u64>) -> i32 {
    let t0 = std::time::Instant::now();
    let cap_s = wall_cap.unwrap_or(if tier == "thorough" { 1500 } else { 50 });
    let all_cases = enumerate(tier);
    let enumerated = all_cases.len();
    eprintln!("C12: {} cases enumerated ({:.1}s)", enumerated, t0.elapsed().as_secs_f64());
    let raw = run_capped(&all_cases, Some(t0 + std::time::Duration::from_secs(cap_s)));
    // wall cap: keep what was executed, say so
    let mut enumerated_per_ext: BTreeMap<&'static str, u64> = BTreeMap::new();
    for c in &all_cases {
        *enumerated_per_ext.entry(c.ext.name()).or_default() += 1;
    }
    let mut cases = Vec::with_capacity(enumerated);
    let mut obs = Vec::with_capacity(enumerated);
    for (c, o) in all_cases.into_iter().zip(raw) {
        if let Some(o) = o {
            cases.push(c);
            obs.push(o);
        }
    }
    let capped = cases.len() < enumerated;
    if cases.is_empty() {
        eprintln!("MACHINERY: no case was executed within the wall cap");
        return 2;
    }
    eprintln!("C12: {} of {} cases executed ({:.1}s){}", cases.len(), enumerated, t0.elapsed().as_secs_f64(), if capped { " — WALL CAP FIRED" } else { "" });

    // determinism: the first 64 cases and every 997th case again, identical observations required
    let mut again_idx: Vec<usize> = (0..cases.len().min(64)).collect();
    again_idx.extend((0..cases.len()).step_by(997));
    let again_cases: Vec<Case12> = again_idx.iter().map(|&i| cases[i].clone()).collect();
    let again = run_all(&again_cases);
    for (k, &i) in again_idx.iter().enumerate() {
        if again[k].canon() != obs[i].canon() {
            eprintln!("MACHINERY: nondeterministic observation for case {:?}: {:?} vs {:?}", cases[i], obs[i], again[k]);
            return 2;
        }
    }

    eprintln!("C12: determinism re-runs done ({:.1}s)", t0.elapsed().as_secs_f64());
    let mut rep = Reporter::new("C12");
    let mut failing: Vec<usize> = Vec::new();
    for (i, (c, o)) in cases.iter().zip(&obs).enumerate() {
        let vs = judge(c, o);
        if !vs.is_empty() {
            failing.push(i);
        }
        rep.add_all(vs);
    }
    rep.add_all(judge_groups(&cases, &obs));

    // failing cases must fail identically when re-run
    let fail_cases: Vec<Case12> = failing.iter().take(512).map(|&i| cases[i].clone()).collect();
    let fail_again = run_all(&fail_cases);
    for (k, &i) in failing.iter().take(512).enumerate() {
        if fail_again[k].canon() != obs[i].canon() {
            eprintln!("MACHINERY: failing case did not reproduce identically: {:?}: {:?} vs {:?}", cases[i], obs[i], fail_again[k]);
            return 2;
        }
    }

    // evidence (all counters measured)
    let mut distinct: BTreeSet<(Ext, usize, &'static str, String, String)> = BTreeSet::new();
    let mut outcome_hist: BTreeMap<String, u64> = BTreeMap::new();
    let mut per_ext: BTreeMap<&'static str, u64> = BTreeMap::new();
    let mut other_fail: BTreeMap<String, u64> = BTreeMap::new();
    let mut multi_chunk = 0u64;
    let mut blocking_path = 0u64;
    for (c, o) in cases.iter().zip(&obs) {
        *outcome_hist.entry(o.outcome.class()).or_default() += 1;
        *per_ext.entry(c.ext.name()).or_default() += 1;
        if let Outcome::Other(k) = &o.outcome {
            if c.len <= c.limit && body_for(c.ext, c.len).1 {
                *other_fail.entry(format!("{}:{}:{}", c.ext.name(), k, coding_class(c))).or_default() += 1;
            }
        }
        if o.n_chunks >= 2 {
            multi_chunk += 1;
            distinct.insert((c.ext, c.limit, length_class(c), c.shape.clone(), o.outcome.class()));
        }
        if c.coding != Coding::Identity && o.max_chunk >= 2049 {
            blocking_path += 1;
        }
    }
    let mut samples = Vec::new();
    for k in [0usize, cases.len() / 3, cases.len() / 2, cases.len() - 1] {
        samples.push(json!({"case": cases[k], "observed": obs[k]}));
    }
    let mut ev = Evidence::new("C12", tier, "exploration");
    ev.set("evaluations", cases.len() as u64)
        .set("distinct_nontrivial", distinct.len() as u64)
        .set("rule", "full cartesian product extractor x limit x decoded length {limit-1, limit, limit+1, 4*limit, 64*limit} x chunking (all 2^(n-1) compositions for short bodies; whole / 1-byte / every cut and two-cut split around the limit boundary / fixed-size otherwise) x Pending-between-chunks x Content-Length {absent, true, lie small, lie +1, lie over limit} x coding, each run through the real extractor on a counting source. distinct_nontrivial = number of distinct (extractor, limit, length-class, chunking-shape, outcome-class) tuples among cases whose body arrived in >= 2 chunks")
        .set("samples", samples)
        .set("exhaustive", !capped)
        .set("capped", capped)
        .set("enumerated", enumerated as u64)
        .set("enumerated_per_extractor", json!(enumerated_per_ext))
        .set("cap_note", if capped { "wall cap fired: cases are executed in enumeration order (extractor-major) unless VERIF_SEED permutes it; an extractor is fully covered iff cases_per_extractor == enumerated_per_extractor; clause (c) was evaluated on the executed cases only" } else { "the whole enumerated product was executed" })
        .set("multi_chunk_cases", multi_chunk)
        .set("coded_cases_reaching_blocking_pool_path", blocking_path)
        .set("outcome_histogram", json!(outcome_hist))
        .set("within_limit_other_failures", json!(other_fail))
        .set("cases_per_extractor", json!(per_ext))
        .set("determinism_reruns", (again_idx.len() + fail_cases.len()) as u64)
        .set("violating_cases", rep.total_violating_cases)
        .set("violation_classes", json!(rep.summaries()));
    ev.assume("the request head (headers, app_data) is built with actix_web::test::TestRequest; the payload is a harness stream handed to the extractor as dev::Payload::Stream, i.e. the HTTP/1 framing layer (which would enforce a declared Content-Length) is bypassed on purpose so that lying lengths reach the extractor")
        .assume("clause (d) for coded bodies uses a separate run of the real Decompress wrapper to learn which source chunk makes the decoded total exceed the limit; amplification inside one decoder step is not demanded")
        .assume("clause (d) for multipart allows the parser's configured read-ahead buffer (MultipartConfig::buffer_limit) in addition to the limit and one chunk")
        .assume("blocking-pool completion time is not enumerated (one hand-off in flight, awaited)");
    ev.wall_s = t0.elapsed().as_secs_f64();
    ev.violations = rep.unknown_count() as i64;
    ev.write();
    eprintln!(
        "C12: {} evaluations, {} distinct non-trivial classes, {} violation classes ({} known), {:.1}s",
        cases.len(), distinct.len(), rep.distinct(), rep.known_count(), t0.elapsed().as_secs_f64()
    );
    rep.finish()
}

pub fn replay(v: &serde_json::Value) -> i32 {
    let r = &v["replay"];
    let run_one = |c: &Case12| -> Obs12 {
        let c = c.clone();
        let mut out = run_all(std::slice::from_ref(&c));
        out.pop().unwrap()
    };
    match r["kind"].as_str() {
        Some("single") => {
            let case: Case12 = serde_json::from_value(r["case"].clone()).unwrap_or_else(|e| mc_core::machinery(format!("bad replay: {e}")));
            let obs = run_one(&case);
            println!("case: {}", serde_json::to_string(&case).unwrap());
            println!("observed: {}", serde_json::to_string(&obs).unwrap());
            if let Ok(prev) = serde_json::from_value::<Obs12>(r["observed"].clone()) {
                if prev.canon() != obs.canon() {
                    println!("note: observation differs from the recorded one: {}", serde_json::to_string(&prev).unwrap());
                }
            }
            let vs = judge(&case, &obs);
            for x in &vs {
                println!("FAILS clause={} signature={}\n  {}", x.clause, x.signature, x.what);
            }
            if vs.is_empty() {
                println!("no clause fails on this case");
                0
            } else {
                1
            }
        }
        Some("pair") => {
            let a: Case12 = serde_json::from_value(r["a"].clone()).unwrap_or_else(|e| mc_core::machinery(format!("bad replay: {e}")));
            let b: Case12 = serde_json::from_value(r["b"].clone()).unwrap_or_else(|e| mc_core::machinery(format!("bad replay: {e}")));
            let (oa, ob) = (run_one(&a), run_one(&b));
            println!("case a: {}\nobserved a: {}", serde_json::to_string(&a).unwrap(), serde_json::to_string(&oa).unwrap());
            println!("case b: {}\nobserved b: {}", serde_json::to_string(&b).unwrap(), serde_json::to_string(&ob).unwrap());
            let mut vs = judge_groups(&[a.clone(), b.clone()], &[oa.clone(), ob.clone()]);
            vs.extend(judge(&a, &oa));
            vs.extend(judge(&b, &ob));
            for x in &vs {
                println!("FAILS clause={} signature={}\n  {}", x.clause, x.signature, x.what);
            }
            if vs.is_empty() {
                println!("no clause fails on this pair");
                0
            } else {
                1
            }
        }
        _ => mc_core::machinery("replay file has no replay.kind"),
    }
}
