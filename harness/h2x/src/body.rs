//! Response bodies used by the scripted handlers (the "menu" of DESIGN §4 C08).

use crate::spec::{pat_vec, Ck, Sz};
use actix_http::body::{self, BodySize, BodyStream, BoxBody, MessageBody, SizedStream};
use bytes::Bytes;
use futures_core::Stream;
use std::collections::VecDeque;
use std::fmt;
use std::pin::Pin;
use std::task::{Context, Poll};

#[derive(Debug)]
pub struct BodyErr;
impl fmt::Display for BodyErr {
    fn fmt(&self, f: &mut fmt::Formatter<'_>) -> fmt::Result {
        f.write_str("scripted body error")
    }
}
impl std::error::Error for BodyErr {}

/// Interprets a chunk script. Content is `pat(stream, offset)`.
pub struct ChunkStream {
    items: VecDeque<Ck>,
    sidx: usize,
    off: usize,
    failed: bool,
}

impl ChunkStream {
    pub fn new(sidx: usize, items: &[Ck]) -> Self {
        ChunkStream { items: items.iter().cloned().collect(), sidx, off: 0, failed: false }
    }
}

impl Stream for ChunkStream {
    type Item = Result<Bytes, BodyErr>;
    fn poll_next(self: Pin<&mut Self>, cx: &mut Context<'_>) -> Poll<Option<Self::Item>> {
        let this = self.get_mut();
        if this.failed {
            return Poll::Ready(None);
        }
        match this.items.pop_front() {
            None => Poll::Ready(None),
            Some(Ck::D(n)) => {
                let b = Bytes::from(pat_vec(this.sidx, this.off, n));
                this.off += n;
                Poll::Ready(Some(Ok(b)))
            }
            Some(Ck::E) => Poll::Ready(Some(Ok(Bytes::new()))),
            Some(Ck::Err) => {
                this.failed = true;
                Poll::Ready(Some(Err(BodyErr)))
            }
            Some(Ck::Pend) => {
                cx.waker().wake_by_ref();
                Poll::Pending
            }
        }
    }
}

/// A hand-written `MessageBody` with a scripted `size()`.
pub struct Scripted {
    size: BodySize,
    st: ChunkStream,
}

impl Scripted {
    pub fn new(sidx: usize, sz: Sz, items: &[Ck]) -> Self {
        let total: usize = items.iter().map(|c| if let Ck::D(n) = c { *n } else { 0 }).sum();
        let size = match sz {
            Sz::None => BodySize::None,
            Sz::Sized => BodySize::Sized(total as u64),
            Sz::Stream => BodySize::Stream,
        };
        Scripted { size, st: ChunkStream::new(sidx, items) }
    }
}

impl MessageBody for Scripted {
    type Error = BodyErr;
    fn size(&self) -> BodySize {
        self.size
    }
    fn poll_next(self: Pin<&mut Self>, cx: &mut Context<'_>) -> Poll<Option<Result<Bytes, BodyErr>>> {
        Pin::new(&mut self.get_mut().st).poll_next(cx)
    }
}

type DynErr = Box<dyn std::error::Error>;

/// One concrete body type for the service (`Response<RespBody>`), delegating to the real actix
/// body implementations.
pub enum RespBody {
    Unit(()),
    NoBody(body::None),
    Bytes(Bytes),
    Str(String),
    Sized(SizedStream<ChunkStream>),
    Stream(BodyStream<ChunkStream>),
    Custom(Scripted),
    Boxed(BoxBody),
}

impl MessageBody for RespBody {
    type Error = DynErr;

    fn size(&self) -> BodySize {
        match self {
            RespBody::Unit(b) => b.size(),
            RespBody::NoBody(b) => b.size(),
            RespBody::Bytes(b) => b.size(),
            RespBody::Str(b) => b.size(),
            RespBody::Sized(b) => b.size(),
            RespBody::Stream(b) => b.size(),
            RespBody::Custom(b) => b.size(),
            RespBody::Boxed(b) => b.size(),
        }
    }

    fn poll_next(self: Pin<&mut Self>, cx: &mut Context<'_>) -> Poll<Option<Result<Bytes, DynErr>>> {
        fn cv<E: Into<DynErr>>(p: Poll<Option<Result<Bytes, E>>>) -> Poll<Option<Result<Bytes, DynErr>>> {
            p.map(|o| o.map(|r| r.map_err(Into::into)))
        }
        match self.get_mut() {
            RespBody::Unit(b) => cv(Pin::new(b).poll_next(cx)),
            RespBody::NoBody(b) => cv(Pin::new(b).poll_next(cx)),
            RespBody::Bytes(b) => cv(Pin::new(b).poll_next(cx)),
            RespBody::Str(b) => cv(Pin::new(b).poll_next(cx)),
            RespBody::Sized(b) => cv(Pin::new(b).poll_next(cx)),
            RespBody::Stream(b) => cv(Pin::new(b).poll_next(cx)),
            RespBody::Custom(b) => cv(Pin::new(b).poll_next(cx)),
            RespBody::Boxed(b) => cv(Pin::new(b).poll_next(cx)),
        }
    }
}
