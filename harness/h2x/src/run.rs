//! One execution: the REAL actix HTTP/2 server connection (`HttpService::build().h2(svc)`) on one
//! end of an in-memory duplex pipe, an `h2` 0.3 client driven step by step on the other end. All
//! tasks live in one `LocalSet` on a paused-clock current-thread runtime; "settle" is a 1 ms
//! paused sleep (tokio completes it only when every other task is idle). The only enumerated
//! nondeterminism is the PEER's behaviour: how much window it releases after each DATA frame,
//! in which order deferred releases fire, and where it resets a stream.

use crate::body::{ChunkStream, RespBody, Scripted};
use crate::spec::*;
use actix_http::body::{self, BodyStream, BoxBody, SizedStream};
use actix_http::{HttpService, KeepAlive, Request, Response, StatusCode};
use actix_service::{fn_service, Service, ServiceFactory};
use bytes::Bytes;
use futures_util::task::noop_waker_ref;
use futures_util::StreamExt;
use mc_core::Chooser;
use serde::Serialize;
use std::cell::RefCell;
use std::collections::BTreeMap;
use std::future::Future;
use std::pin::Pin;
use std::rc::Rc;
use std::task::{Context, Poll};
use std::time::Duration;

/// hard horizon of one execution, in settle steps (reaching it is a machinery error: scenarios are
/// sized so that every run quiesces long before)
pub const MAX_STEPS: usize = 4000;

#[derive(Clone, Debug, Serialize, PartialEq)]
pub enum End {
    Open,
    Clean,
    /// reset / error seen by the client, canonical text
    Error(String),
}

#[derive(Clone, Debug, Serialize)]
pub struct Obs {
    pub status: Option<u16>,
    /// lower-case name -> values in order; `date` masked
    pub headers: BTreeMap<String, Vec<String>>,
    /// sizes of the DATA frames in arrival order
    pub frames: Vec<usize>,
    #[serde(skip)]
    pub data: Vec<u8>,
    pub data_len: usize,
    pub data_hash: String,
    pub end: End,
    /// step at which the client reset this stream
    pub client_reset: Option<usize>,
    /// how the release choices went: a=all, 1=one byte, n=nothing
    pub releases: String,
    /// upload: bytes the client managed to send, and how the upload ended
    pub up_sent: usize,
    pub up_state: String,
    /// what the handler saw of the request body
    pub h_started: bool,
    pub h_read: usize,
    pub h_read_ok: bool,
    pub h_read_end: String,
}

#[derive(Default, Clone)]
struct HRec {
    started: bool,
    read: Vec<u8>,
    end: Option<Result<(), String>>,
}

struct SvcErr;
impl From<SvcErr> for Response<BoxBody> {
    fn from(_: SvcErr) -> Self {
        Response::with_body(StatusCode::INTERNAL_SERVER_ERROR, BoxBody::new(Bytes::from_static(SVC_ERR_BODY)))
    }
}

/// Per stream: has the client received the complete response? plus wakers of handlers waiting for it.
#[derive(Default)]
struct ClientDone {
    done: Vec<bool>,
    waiters: Vec<Vec<std::task::Waker>>,
}

struct WaitFor(Rc<RefCell<ClientDone>>, usize);
impl Future for WaitFor {
    type Output = ();
    fn poll(self: Pin<&mut Self>, cx: &mut Context<'_>) -> Poll<()> {
        let mut c = self.0.borrow_mut();
        if c.done[self.1] {
            Poll::Ready(())
        } else {
            let w = cx.waker().clone();
            c.waiters[self.1].push(w);
            Poll::Pending
        }
    }
}

/// A service that is ready for one call at a time.
struct OneAtATime<S> {
    inner: S,
    /// off = never busy (plain pass-through)
    limit: bool,
    busy: Rc<std::cell::Cell<bool>>,
    waker: Rc<RefCell<Option<std::task::Waker>>>,
}

impl<S, Req> Service<Req> for OneAtATime<S>
where
    S: Service<Req>,
    S::Future: 'static,
{
    type Response = S::Response;
    type Error = S::Error;
    type Future = Pin<Box<dyn Future<Output = Result<S::Response, S::Error>>>>;
    fn poll_ready(&self, cx: &mut Context<'_>) -> Poll<Result<(), Self::Error>> {
        if self.limit && self.busy.get() {
            *self.waker.borrow_mut() = Some(cx.waker().clone());
            Poll::Pending
        } else {
            self.inner.poll_ready(cx)
        }
    }
    fn call(&self, req: Req) -> Self::Future {
        self.busy.set(true);
        let fut = self.inner.call(req);
        let (busy, waker) = (self.busy.clone(), self.waker.clone());
        Box::pin(async move {
            let r = fut.await;
            busy.set(false);
            if let Some(w) = waker.borrow_mut().take() {
                w.wake();
            }
            r
        })
    }
}

struct YieldOnce(bool);
impl Future for YieldOnce {
    type Output = ();
    fn poll(mut self: Pin<&mut Self>, cx: &mut Context<'_>) -> Poll<()> {
        if self.0 {
            Poll::Ready(())
        } else {
            self.0 = true;
            cx.waker().wake_by_ref();
            Poll::Pending
        }
    }
}

fn make_body(idx: usize, st: &St, read: &[u8]) -> RespBody {
    let b = match &st.body {
        Body::Unit => RespBody::Unit(()),
        Body::NoBody => RespBody::NoBody(body::None::new()),
        Body::Bytes(n) => RespBody::Bytes(Bytes::from(pat_vec(idx, 0, *n))),
        Body::Str(n) => RespBody::Str(String::from_utf8(pat_vec(idx, 0, *n)).unwrap()),
        Body::SizedStream(c) => {
            let total = full_len(&st.body, None);
            RespBody::Sized(SizedStream::new(total as u64, ChunkStream::new(idx, c)))
        }
        Body::BodyStream(c) => RespBody::Stream(BodyStream::new(ChunkStream::new(idx, c))),
        Body::Custom(sz, c) => RespBody::Custom(Scripted::new(idx, *sz, c)),
        Body::Echo => RespBody::Bytes(Bytes::copy_from_slice(read)),
        Body::SvcErr => unreachable!(),
    };
    if st.boxed {
        RespBody::Boxed(BoxBody::new(b))
    } else {
        b
    }
}

async fn handle(mut req: Request, specs: Rc<Vec<St>>, rec: Rc<RefCell<Vec<HRec>>>, cdone: Rc<RefCell<ClientDone>>) -> Result<Response<RespBody>, SvcErr> {
    let idx: usize = req.path().trim_start_matches("/s").parse().expect("path /s<idx>");
    let st = &specs[idx];
    rec.borrow_mut()[idx].started = true;
    let mut payload = req.take_payload();
    let policy = st.upload.as_ref().map(|u| u.read).unwrap_or(Read::All);
    if policy != Read::Nothing {
        loop {
            let item = payload.next().await;
            if std::env::var("H2X_ECHO").is_ok() {
                eprintln!("    handler s{idx}: payload item {:?}", item.as_ref().map(|r| r.as_ref().map(|b| b.len()).map_err(|e| e.to_string())));
            }
            match item {
                Some(Ok(b)) => rec.borrow_mut()[idx].read.extend_from_slice(&b),
                Some(Err(e)) => {
                    rec.borrow_mut()[idx].end = Some(Err(format!("{e}")));
                    break;
                }
                None => {
                    rec.borrow_mut()[idx].end = Some(Ok(()));
                    break;
                }
            }
            if policy == Read::Slow {
                YieldOnce(false).await;
            }
        }
    }
    for _ in 0..st.yields {
        YieldOnce(false).await;
    }
    if let Some(other) = st.wait_for {
        WaitFor(cdone.clone(), other).await;
    }
    if st.body == Body::SvcErr {
        return Err(SvcErr);
    }
    let read = rec.borrow()[idx].read.clone();
    let mut res = Response::with_body(StatusCode::from_u16(st.status).unwrap(), make_body(idx, st, &read));
    let total = full_len(&st.body, st.upload.as_ref());
    for (k, v) in &st.headers {
        let v = if *v == "$len" { total.to_string() } else { v.to_string() };
        res.headers_mut().append(
            actix_http::header::HeaderName::from_bytes(k.as_bytes()).unwrap(),
            actix_http::header::HeaderValue::from_str(&v).unwrap(),
        );
    }
    Ok(res)
}

fn poll_once<F: Future + Unpin>(f: &mut F) -> Poll<F::Output> {
    let mut cx = Context::from_waker(noop_waker_ref());
    Pin::new(f).poll(&mut cx)
}

fn canon_err(e: &h2::Error) -> String {
    let kind = if e.is_reset() {
        "reset"
    } else if e.is_go_away() {
        "goaway"
    } else if e.is_io() {
        "io"
    } else {
        "other"
    };
    let who = if e.is_remote() { "remote" } else { "local" };
    match e.reason() {
        Some(r) => format!("{kind}:{who}:{r:?}"),
        None => format!("{kind}:{who}"),
    }
}

#[derive(PartialEq)]
enum Up {
    NoUpload,
    Sending,
    Done,
    Aborted(String),
}

struct Rt {
    resp_fut: Option<h2::client::ResponseFuture>,
    recv: Option<h2::RecvStream>,
    send: Option<h2::SendStream<Bytes>>,
    /// step at which the request was sent
    started_at: Option<usize>,
    up: Up,
    up_sent: usize,
    /// received, not yet released
    deferred: usize,
    /// stalled stream: received and withheld
    withheld: usize,
    obs: Obs,
}

thread_local! {
    /// polls of the two connection futures and of the handlers in the current execution
    static POLLS: std::cell::Cell<u64> = const { std::cell::Cell::new(0) };
}
/// A legitimate execution needs a few thousand polls. Beyond this budget the connection futures
/// are parked, the run winds down and is reported as a machinery error (a livelock between the
/// peer library and the server would otherwise keep `settle` from ever returning).
pub const POLL_BUDGET: u64 = 400_000;

struct Counted<F>(F);
impl<F: Future + Unpin> Future for Counted<F> {
    type Output = F::Output;
    fn poll(mut self: Pin<&mut Self>, cx: &mut Context<'_>) -> Poll<F::Output> {
        let n = POLLS.with(|p| {
            p.set(p.get() + 1);
            p.get()
        });
        if n > POLL_BUDGET {
            return Poll::Pending;
        }
        Pin::new(&mut self.0).poll(cx)
    }
}

struct Log {
    lines: Vec<String>,
    echo: bool,
}
impl Log {
    fn push(&mut self, l: String) {
        if self.echo {
            eprintln!("  {l}");
        }
        self.lines.push(l);
    }
}

pub struct Exec {
    pub obs: Vec<Obs>,
    pub log: Vec<String>,
    pub steps: usize,
    /// the run hit MAX_STEPS while still making progress
    pub horizon: bool,
    /// a panic was raised inside a spawned task (location, message)
    pub task_panic: Option<(String, String)>,
    /// polls of connection futures + handlers (see POLL_BUDGET)
    pub polls: u64,
}

async fn settle() {
    tokio::time::sleep(Duration::from_millis(1)).await;
}

pub fn execute(scn: &Scn, ch: &mut Chooser) -> Exec {
    let _ = mc_core::explore::take_last_panic();
    POLLS.with(|p| p.set(0));
    let rt = tokio::runtime::Builder::new_current_thread()
        .enable_time()
        .start_paused(true)
        .build()
        .expect("runtime");
    let local = tokio::task::LocalSet::new();
    let mut ex = local.block_on(&rt, drive(scn, ch));
    drop(local);
    drop(rt);
    ex.task_panic = mc_core::explore::take_last_panic();
    ex.polls = POLLS.with(|p| p.get());
    ex
}

async fn drive(scn: &Scn, ch: &mut Chooser) -> Exec {
    let mut log = Log { lines: vec![], echo: std::env::var("H2X_ECHO").is_ok() };
    let n = scn.streams.len();
    let specs = Rc::new(scn.streams.clone());
    let rec = Rc::new(RefCell::new(vec![HRec::default(); n]));
    let cdone = Rc::new(RefCell::new(ClientDone { done: vec![false; n], waiters: vec![vec![]; n] }));

    // ---- the real server connection
    let (client_io, server_io) = tokio::io::duplex(1 << 22);
    let mut b = HttpService::build()
        .keep_alive(KeepAlive::Disabled)
        .client_request_timeout(Duration::ZERO)
        .client_disconnect_timeout(Duration::ZERO);
    if let Some(w) = scn.srv_win {
        b = b.h2_initial_window_size(w);
    }
    if let Some(w) = scn.srv_conn_win {
        b = b.h2_initial_connection_window_size(w);
    }
    let (s2, r2, c2) = (specs.clone(), rec.clone(), cdone.clone());
    let one_at_a_time = scn.one_at_a_time;
    let factory = b.h2(actix_service::fn_factory(move || {
        let (s2, r2, c2) = (s2.clone(), r2.clone(), c2.clone());
        async move {
            let inner = fn_service(move |req: Request| Counted(Box::pin(handle(req, s2.clone(), r2.clone(), c2.clone()))));
            let inner = inner.new_service(()).await?;
            let busy = Rc::new(std::cell::Cell::new(false));
            // when the limit is off the wrapper never reports busy
            Ok::<_, ()>(OneAtATime { inner, limit: one_at_a_time, busy, waker: Rc::new(RefCell::new(None)) })
        }
    }));
    let svc = factory.new_service(()).await.expect("new_service");
    let wire_log = Rc::new(RefCell::new(Vec::<String>::new()));
    let conn = svc.call((crate::wire::Wire::new(server_io, wire_log.clone()), None));
    let server_done = Rc::new(RefCell::new(None::<String>));
    let sd = server_done.clone();
    tokio::task::spawn_local(async move {
        let r = Counted(Box::pin(conn)).await;
        *sd.borrow_mut() = Some(match r {
            Ok(()) => "ok".to_string(),
            Err(e) => format!("err:{e}"),
        });
    });

    // ---- the peer
    let (send_req, connection) = h2::client::Builder::new()
        .initial_window_size(scn.win)
        .initial_connection_window_size(scn.conn_win)
        .handshake::<_, Bytes>(client_io)
        .await
        .expect("client handshake");
    let client_done = Rc::new(RefCell::new(None::<String>));
    let cd = client_done.clone();
    tokio::task::spawn_local(async move {
        let r = Counted(Box::pin(connection)).await;
        *cd.borrow_mut() = Some(match r {
            Ok(()) => "ok".to_string(),
            Err(e) => format!("err:{}", canon_err(&e)),
        });
    });

    let mut send_req = Some(send_req);
    let mut rts: Vec<Rt> = (0..n)
        .map(|_| Rt {
            resp_fut: None,
            recv: None,
            send: None,
            started_at: None,
            up: Up::NoUpload,
            up_sent: 0,
            deferred: 0,
            withheld: 0,
            obs: Obs {
                status: None,
                headers: BTreeMap::new(),
                frames: vec![],
                data: vec![],
                data_len: 0,
                data_hash: String::new(),
                end: End::Open,
                client_reset: None,
                releases: String::new(),
                up_sent: 0,
                up_state: String::new(),
                h_started: false,
                h_read: 0,
                h_read_ok: false,
                h_read_end: String::new(),
            },
        })
        .collect();

    let mut steps = 0usize;
    let mut horizon = false;
    let mut resets_left = if scn.resets { 1 } else { 0 };

    // phase 1: choices; phase 2: stalled streams are released, no choices
    for phase in 1..=2 {
        if phase == 2 {
            let mut any = false;
            for (i, r) in rts.iter_mut().enumerate() {
                if r.withheld > 0 {
                    if let Some(rs) = r.recv.as_mut() {
                        let _ = rs.flow_control().release_capacity(r.withheld);
                        log.push(format!("phase2: s{i} releases the {} bytes it withheld", r.withheld));
                        r.withheld = 0;
                        any = true;
                    }
                }
            }
            if !any {
                break;
            }
        }
        let mut quiescent = false;
        loop {
            // ---- requests that the scenario sends at this boundary
            let mut started_now = false;
            for (i, st) in scn.streams.iter().enumerate() {
                if rts[i].started_at.is_some() || st.start > steps {
                    continue;
                }
                let mut sr = send_req.take().unwrap().ready().await.expect("client ready");
                let req = http::Request::builder()
                    .method(st.method)
                    .uri(format!("http://localhost/s{i}"))
                    .body(())
                    .unwrap();
                let has_up = st.upload.as_ref().map(|u| u.len > 0).unwrap_or(false);
                let (fut, send) = sr.send_request(req, !has_up).expect("send_request");
                send_req = Some(sr);
                rts[i].resp_fut = Some(fut);
                rts[i].send = Some(send);
                rts[i].started_at = Some(steps);
                rts[i].up = if has_up { Up::Sending } else { Up::NoUpload };
                started_now = true;
                log.push(format!("step {steps}: client sends {} /s{i} end_stream={}", st.method, !has_up));
            }
            let pending_start = rts.iter().any(|r| r.started_at.is_none());

            // ---- environment event at this boundary
            let fire: Vec<usize> = (0..n).filter(|&i| rts[i].deferred > 0 && rts[i].recv.is_some()).collect();
            // No reset before the first settle: the h2 client would drop the still-queued HEADERS
            // and put a bare RST_STREAM for an idle stream on the wire, which is a protocol
            // violation by the peer (RFC 7540 §6.4) that the server must answer with GOAWAY.
            let live: Vec<usize> = if resets_left > 0 && phase == 1 {
                (0..n)
                    .filter(|&i| {
                        rts[i].obs.client_reset.is_none()
                            && rts[i].obs.end == End::Open
                            && rts[i].started_at.map(|t| steps > t).unwrap_or(false)
                    })
                    .collect()
            } else {
                vec![]
            };
            // quiescent: the last settle brought nothing new and no request was sent just now
            let idle = quiescent && !pending_start && !started_now;
            if idle && fire.is_empty() {
                break;
            }
            let base = if idle { 0 } else { 1 };
            let nopt = base + fire.len() + live.len();
            let pick = if phase == 1 {
                ch.choose(if idle { "env-quiescent" } else { "env" }, nopt as u32) as usize
            } else {
                0
            };
            if pick < base {
                // continue
            } else if pick < base + fire.len() {
                let i = fire[pick - base];
                let amt = rts[i].deferred;
                let r = rts[i].recv.as_mut().unwrap().flow_control().release_capacity(amt);
                log.push(format!("step {steps}: deferred release fires on s{i}: {amt} bytes ({:?})", r.is_ok()));
                rts[i].deferred = 0;
            } else {
                let i = live[pick - base - fire.len()];
                let r = &mut rts[i];
                // hand back everything this stream holds, so that the connection window stays open
                let held = r.deferred + r.withheld;
                if held > 0 {
                    if let Some(rs) = r.recv.as_mut() {
                        let _ = rs.flow_control().release_capacity(held);
                    }
                }
                r.deferred = 0;
                r.withheld = 0;
                if !scn.reset_by_drop {
                    if let Some(s) = r.send.as_mut() {
                        s.send_reset(h2::Reason::CANCEL);
                    }
                }
                // (with reset_by_drop the h2 client resets the stream itself when the last handle goes)
                r.send = None;
                r.recv = None;
                r.resp_fut = None;
                if r.up == Up::Sending {
                    r.up = Up::Aborted("client-reset".into());
                }
                r.obs.client_reset = Some(steps);
                resets_left -= 1;
                log.push(format!("step {steps}: client sends RST_STREAM(CANCEL) on s{i}"));
            }

            steps += 1;
            if steps > MAX_STEPS {
                horizon = true;
                break;
            }
            settle().await;
            for l in wire_log.borrow_mut().drain(..) {
                log.lines.push(l);
            }

            // ---- read what arrived, one frame per stream
            let mut progress = started_now;
            for i in 0..n {
                let st = &scn.streams[i];
                let r = &mut rts[i];
                if r.obs.client_reset.is_some() || r.started_at.is_none() {
                    continue;
                }
                // upload
                if r.up == Up::Sending {
                    let u = st.upload.as_ref().unwrap();
                    let send = r.send.as_mut().unwrap();
                    let remaining = u.len - r.up_sent;
                    send.reserve_capacity(remaining.min(u.frame));
                    let cap = send.capacity();
                    let mut cx = Context::from_waker(noop_waker_ref());
                    if let Poll::Ready(res) = send.poll_reset(&mut cx) {
                        let why = match res {
                            Ok(reason) => format!("reset:remote:{reason:?}"),
                            Err(e) => canon_err(&e),
                        };
                        log.push(format!("step {steps}: s{i} upload aborted: {why}"));
                        r.up = Up::Aborted(why);
                        progress = true;
                    } else if cap > 0 {
                        let k = cap.min(remaining).min(u.frame);
                        let bytes = Bytes::from(pat_vec(i + UP_SALT, r.up_sent, k));
                        let last = k == remaining;
                        match send.send_data(bytes, last) {
                            Ok(()) => {
                                r.up_sent += k;
                                log.push(format!("step {steps}: s{i} uploads {k} bytes (capacity {cap}){}", if last { " END_STREAM" } else { "" }));
                                if last {
                                    r.up = Up::Done;
                                }
                            }
                            Err(e) => {
                                r.up = Up::Aborted(canon_err(&e));
                                log.push(format!("step {steps}: s{i} upload send_data failed: {}", canon_err(&e)));
                            }
                        }
                        progress = true;
                    }
                }
                if r.obs.end != End::Open {
                    continue;
                }
                if let Some(f) = r.resp_fut.as_mut() {
                    match poll_once(f) {
                        Poll::Ready(Ok(resp)) => {
                            let (parts, body) = resp.into_parts();
                            r.obs.status = Some(parts.status.as_u16());
                            for (k, v) in parts.headers.iter() {
                                let name = k.as_str().to_ascii_lowercase();
                                let val = if name == "date" { "<masked>".to_string() } else { String::from_utf8_lossy(v.as_bytes()).into_owned() };
                                r.obs.headers.entry(name).or_default().push(val);
                            }
                            log.push(format!("step {steps}: s{i} response {} {:?} end_stream={}", parts.status.as_u16(), r.obs.headers, body.is_end_stream()));
                            r.recv = Some(body);
                            r.resp_fut = None;
                            progress = true;
                        }
                        Poll::Ready(Err(e)) => {
                            r.obs.end = End::Error(canon_err(&e));
                            log.push(format!("step {steps}: s{i} response future failed: {}", canon_err(&e)));
                            r.resp_fut = None;
                            progress = true;
                        }
                        Poll::Pending => {}
                    }
                } else if let Some(rs) = r.recv.as_mut() {
                    let mut cx = Context::from_waker(noop_waker_ref());
                    match rs.poll_data(&mut cx) {
                        Poll::Ready(Some(Ok(b))) => {
                            let len = b.len();
                            r.obs.frames.push(len);
                            r.obs.data.extend_from_slice(&b);
                            progress = true;
                            if len > 0 {
                                if st.client == Client::Stalled && phase == 1 {
                                    r.withheld += len;
                                    r.obs.releases.push('-');
                                    log.push(format!("step {steps}: s{i} DATA {len} (stalled stream: window withheld)"));
                                } else {
                                    let c = if phase == 1 { ch.choose("release", 3) } else { 0 };
                                    match c {
                                        0 => {
                                            let amt = len + r.deferred;
                                            let res = rs.flow_control().release_capacity(amt);
                                            r.deferred = 0;
                                            r.obs.releases.push('a');
                                            log.push(format!("step {steps}: s{i} DATA {len}; releases all ({amt}) ({:?})", res.is_ok()));
                                        }
                                        1 => {
                                            let res = rs.flow_control().release_capacity(1);
                                            r.deferred += len - 1;
                                            r.obs.releases.push('1');
                                            log.push(format!("step {steps}: s{i} DATA {len}; releases 1 byte ({:?}), defers {}", res.is_ok(), r.deferred));
                                        }
                                        _ => {
                                            r.deferred += len;
                                            r.obs.releases.push('n');
                                            log.push(format!("step {steps}: s{i} DATA {len}; releases nothing yet, defers {}", r.deferred));
                                        }
                                    }
                                }
                            } else {
                                log.push(format!("step {steps}: s{i} DATA 0"));
                            }
                        }
                        Poll::Ready(Some(Err(e))) => {
                            r.obs.end = End::Error(canon_err(&e));
                            log.push(format!("step {steps}: s{i} stream error: {}", canon_err(&e)));
                            progress = true;
                        }
                        Poll::Ready(None) => {
                            r.obs.end = End::Clean;
                            log.push(format!("step {steps}: s{i} END_STREAM"));
                            progress = true;
                            let mut c = cdone.borrow_mut();
                            c.done[i] = true;
                            for w in c.waiters[i].drain(..) {
                                w.wake();
                            }
                        }
                        Poll::Pending => {}
                    }
                }
            }
            quiescent = !progress;
        }
        if horizon {
            break;
        }
    }

    // ---- collect
    let recs = rec.borrow();
    let mut out = vec![];
    for (i, mut r) in rts.into_iter().enumerate() {
        let st = &scn.streams[i];
        r.obs.data_len = r.obs.data.len();
        r.obs.data_hash = format!("{:016x}", mc_core::fnv(&r.obs.data));
        r.obs.up_sent = r.up_sent;
        r.obs.up_state = match &r.up {
            Up::NoUpload => "none".into(),
            Up::Sending => "sending".into(),
            Up::Done => "done".into(),
            Up::Aborted(s) => format!("aborted:{s}"),
        };
        let h = &recs[i];
        r.obs.h_started = h.started;
        r.obs.h_read = h.read.len();
        r.obs.h_read_ok = match &st.upload {
            Some(u) => h.read == pat_vec(i + UP_SALT, 0, u.len.min(h.read.len())),
            None => h.read.is_empty(),
        };
        r.obs.h_read_end = match &h.end {
            None => "open".into(),
            Some(Ok(())) => "eof".into(),
            Some(Err(e)) => format!("err:{e}"),
        };
        out.push(r.obs);
    }
    log.push(format!(
        "end after {steps} settle steps; server connection: {:?}; client connection: {:?}",
        server_done.borrow(),
        client_done.borrow()
    ));
    Exec { obs: out, log: log.lines, steps, horizon, task_panic: None, polls: 0 }
}
