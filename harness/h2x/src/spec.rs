//! Scenario description for C08: what each stream's handler does, how the client behaves, which
//! windows both sides advertise. Plain data; the reference model (`expect`) is computed from it.

use serde::Serialize;

/// One step of a scripted response body.
#[derive(Clone, Debug, Serialize, PartialEq)]
pub enum Ck {
    /// a non-empty data chunk of this many bytes
    D(usize),
    /// an EMPTY chunk (`Ready(Some(Ok(Bytes::new())))`)
    E,
    /// the body fails here
    Err,
    /// `Pending` once, with an immediate self-wake (lets other tasks run)
    Pend,
}

/// What `MessageBody::size()` of a custom body answers (always truthful when `Sized`).
#[derive(Clone, Copy, Debug, Serialize, PartialEq)]
pub enum Sz {
    None,
    Sized,
    Stream,
}

#[derive(Clone, Debug, Serialize, PartialEq)]
pub enum Body {
    /// `()` — `Sized(0)`
    Unit,
    /// `body::None`
    NoBody,
    Bytes(usize),
    Str(usize),
    SizedStream(Vec<Ck>),
    BodyStream(Vec<Ck>),
    Custom(Sz, Vec<Ck>),
    /// `Bytes` holding whatever the handler read from the request body
    Echo,
    /// the service call fails; the error converts into a 500 response with a fixed body
    SvcErr,
}

#[derive(Clone, Copy, Debug, Serialize, PartialEq)]
pub enum Read {
    All,
    /// one chunk, then yield once, then the next chunk …
    Slow,
    /// the handler answers without touching the payload
    Nothing,
}

#[derive(Clone, Debug, Serialize)]
pub struct Upload {
    pub len: usize,
    /// largest DATA frame the client sends
    pub frame: usize,
    pub read: Read,
}

#[derive(Clone, Copy, Debug, Serialize, PartialEq)]
pub enum Client {
    /// every DATA frame is followed by a release choice; everything is released in the end
    Normal,
    /// the client reads but never releases window until every other stream is finished
    Stalled,
}

#[derive(Clone, Debug, Serialize)]
pub struct St {
    pub method: &'static str,
    pub status: u16,
    /// handler-set response headers; the value `$len` stands for the true body length
    pub headers: Vec<(&'static str, &'static str)>,
    pub body: Body,
    /// wrap the body in `BoxBody::new`
    pub boxed: bool,
    pub upload: Option<Upload>,
    pub client: Client,
    /// settle step at whose boundary the client sends this request (0 = at once)
    pub start: usize,
    /// how often the handler yields (Pending + self-wake) before it answers
    pub yields: usize,
    /// the handler answers only once the client has received the complete response of this
    /// other stream (it parks; the client wakes it)
    pub wait_for: Option<usize>,
}

impl St {
    pub fn get(body: Body) -> St {
        St { method: "GET", status: 200, headers: vec![], body, boxed: false, upload: None, client: Client::Normal, start: 0, yields: 0, wait_for: None }
    }
    pub fn head(body: Body) -> St {
        St { method: "HEAD", ..St::get(body) }
    }
    pub fn post(len: usize, frame: usize, read: Read, body: Body) -> St {
        St { method: "POST", upload: Some(Upload { len, frame, read }), ..St::get(body) }
    }
    pub fn status(mut self, s: u16) -> St {
        self.status = s;
        self
    }
    pub fn hdr(mut self, k: &'static str, v: &'static str) -> St {
        self.headers.push((k, v));
        self
    }
    pub fn boxed(mut self) -> St {
        self.boxed = true;
        self
    }
    pub fn start(mut self, step: usize) -> St {
        self.start = step;
        self
    }
    pub fn yields(mut self, n: usize) -> St {
        self.yields = n;
        self
    }
    pub fn wait_for(mut self, other: usize) -> St {
        self.wait_for = Some(other);
        self
    }
    pub fn stalled(mut self) -> St {
        self.client = Client::Stalled;
        self
    }
}

#[derive(Clone, Debug, Serialize)]
pub struct Scn {
    pub name: String,
    /// client's SETTINGS_INITIAL_WINDOW_SIZE (the server's per-stream send window)
    pub win: u32,
    /// client's target connection window
    pub conn_win: u32,
    /// server's `h2_initial_window_size` / `h2_initial_connection_window_size` (None = default)
    pub srv_win: Option<u32>,
    pub srv_conn_win: Option<u32>,
    pub streams: Vec<St>,
    /// offer one RST_STREAM per execution at every event boundary
    pub resets: bool,
    /// reset by dropping every handle of the stream instead of an explicit `send_reset`
    pub reset_by_drop: bool,
    /// part of the core set (explored one deviation deeper in the thorough tier)
    pub core: bool,
    /// the service is ready for one call at a time (not ready while a handler is in flight)
    pub one_at_a_time: bool,
}

/// Deterministic, position-dependent content: shifts, losses, duplications and cross-stream mixups
/// all change some byte.
pub fn pat(stream: usize, off: usize) -> u8 {
    let x = (off as u32).wrapping_mul(2654435761).wrapping_add((stream as u32).wrapping_mul(40503));
    b'a' + ((x >> 13) % 26) as u8
}

pub fn pat_vec(stream: usize, from: usize, len: usize) -> Vec<u8> {
    (from..from + len).map(|o| pat(stream, o)).collect()
}

pub const SVC_ERR_BODY: &[u8] = b"service-error-body";
pub const UP_SALT: usize = 1000;

/// Reference model of one stream, derived from its spec only.
#[derive(Clone, Debug)]
pub struct Expect {
    /// HEAD or 204 / 304 / 1xx
    pub bodiless: bool,
    /// the bytes the client must receive (in order)
    pub bytes: Vec<u8>,
    /// the stream must end with END_STREAM (true) or with a reset because the body failed (false)
    pub clean_end: bool,
    /// truthful total length of the body (what a content-length has to say), None = unknown here
    pub full_len: Option<usize>,
    /// end offsets of the data chunks inside `bytes`
    pub chunk_ends: Vec<usize>,
    /// offset in `bytes` at which the body yields its first EMPTY chunk (custom bodies only)
    pub first_empty_at: Option<usize>,
    pub expect_status: u16,
}

pub fn chunks_of(b: &Body) -> Option<(&[Ck], bool)> {
    // (chunks, empty chunks are filtered by the wrapper type)
    match b {
        Body::SizedStream(c) | Body::BodyStream(c) => Some((c, true)),
        Body::Custom(_, c) => Some((c, false)),
        _ => None,
    }
}

pub fn full_len(b: &Body, upload: Option<&Upload>) -> usize {
    match b {
        Body::Unit | Body::NoBody => 0,
        Body::Bytes(n) | Body::Str(n) => *n,
        Body::SizedStream(c) | Body::BodyStream(c) | Body::Custom(_, c) => {
            c.iter().map(|c| if let Ck::D(n) = c { *n } else { 0 }).sum()
        }
        Body::Echo => upload.map(|u| if u.read == Read::Nothing { 0 } else { u.len }).unwrap_or(0),
        Body::SvcErr => SVC_ERR_BODY.len(),
    }
}

pub fn expect(idx: usize, st: &St) -> Expect {
    let status = if st.body == Body::SvcErr { 500 } else { st.status };
    let bodiless = st.method == "HEAD" || status == 204 || status == 304 || (100..200).contains(&status);
    let total = full_len(&st.body, st.upload.as_ref());
    let mut e = Expect {
        bodiless,
        bytes: vec![],
        clean_end: true,
        full_len: Some(total),
        chunk_ends: vec![],
        first_empty_at: None,
        expect_status: status,
    };
    let size_none = matches!(st.body, Body::NoBody | Body::Custom(Sz::None, _));
    if bodiless || size_none {
        // the body is never polled: nothing is produced, the head ends the stream
        e.full_len = if st.method == "HEAD" || status == 304 {
            // HEAD / 304: a content-length describes the representation, not this message
            None
        } else {
            Some(0)
        };
        return e;
    }
    match &st.body {
        Body::Unit | Body::NoBody => {}
        Body::Bytes(n) | Body::Str(n) => {
            e.bytes = pat_vec(idx, 0, *n);
            if *n > 0 {
                e.chunk_ends.push(*n);
            }
        }
        Body::Echo => {
            let u = st.upload.as_ref().expect("Echo needs an upload");
            if u.read != Read::Nothing {
                e.bytes = pat_vec(idx + UP_SALT, 0, u.len);
                if u.len > 0 {
                    e.chunk_ends.push(u.len);
                }
            }
        }
        Body::SvcErr => {
            e.bytes = SVC_ERR_BODY.to_vec();
            e.chunk_ends.push(e.bytes.len());
        }
        Body::SizedStream(_) | Body::BodyStream(_) | Body::Custom(..) => {
            let (cks, filtered) = chunks_of(&st.body).unwrap();
            for c in cks {
                match c {
                    Ck::D(n) => {
                        let from = e.bytes.len();
                        e.bytes.extend(pat_vec(idx, from, *n));
                        e.chunk_ends.push(e.bytes.len());
                    }
                    Ck::E => {
                        if !filtered && e.first_empty_at.is_none() {
                            e.first_empty_at = Some(e.bytes.len());
                        }
                    }
                    Ck::Err => {
                        e.clean_end = false;
                        break;
                    }
                    Ck::Pend => {}
                }
            }
        }
    }
    e
}
