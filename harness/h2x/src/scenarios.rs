//! The scenario set of C08 (DESIGN §4): windows x bodies x methods x statuses x headers x
//! concurrent streams x uploads. Simplest first, so the first counterexample is a small one.

use crate::spec::Body::*;
use crate::spec::Ck::*;
use crate::spec::*;

const SMALL_CONN: u32 = 9;

fn scn(name: &str, win: u32, conn_win: u32, streams: Vec<St>) -> Scn {
    Scn { name: name.to_string(), win, conn_win, srv_win: None, srv_conn_win: None, streams, resets: true, reset_by_drop: false, core: false, one_at_a_time: false }
}

fn one(name: &str, win: u32, st: St) -> Scn {
    scn(name, win, 65_535, vec![st])
}

trait ScnExt {
    fn srv(self, win: u32, conn: Option<u32>) -> Self;
    fn core(self) -> Self;
    fn by_drop(self) -> Self;
}
impl ScnExt for Scn {
    fn srv(mut self, win: u32, conn: Option<u32>) -> Self {
        self.srv_win = Some(win);
        self.srv_conn_win = conn;
        self
    }
    fn core(mut self) -> Self {
        self.core = true;
        self
    }
    fn by_drop(mut self) -> Self {
        self.reset_by_drop = true;
        self
    }
}

pub fn all() -> Vec<Scn> {
    let mut v: Vec<Scn> = vec![];

    // ---- A. one GET: the body menu x the window sizes (all combinations that stay within ~64
    // DATA frames in the default schedule)
    let small: Vec<(&str, Body)> = vec![
        ("bytes45", Bytes(45)),
        ("bytes12", Bytes(12)),
        ("str20", Str(20)),
        ("sizedstream-10-e-20", SizedStream(vec![D(10), E, D(20)])),
        ("bodystream-5-e-9-pend-3", BodyStream(vec![D(5), E, D(9), Pend, D(3)])),
        ("custom-stream-10-30-5", Custom(Sz::Stream, vec![D(10), D(30), D(5)])),
        ("custom-sized-10-30-5", Custom(Sz::Sized, vec![D(10), D(30), D(5)])),
        ("custom-stream-pend-5-pend-5", Custom(Sz::Stream, vec![Pend, D(5), Pend, Pend, D(5)])),
    ];
    for (bn, body) in &small {
        for win in [1u32, 7, 16_384, 65_535] {
            let total = full_len(body, None);
            if total / (win.min(16_384) as usize) > 64 {
                continue;
            }
            let mut sc = one(&format!("{bn}-w{win}"), win, St::get(body.clone()));
            if matches!((*bn, win), ("bytes45", 7) | ("bytes12", 1) | ("custom-stream-10-30-5", 7) | ("bodystream-5-e-9-pend-3", 7)) {
                sc = sc.core();
            }
            v.push(sc);
        }
    }
    let big: Vec<(&str, Body)> = vec![
        ("bytes16385", Bytes(16_385)),
        ("bytes40000", Bytes(40_000)),
        ("bytes70000", Bytes(70_000)),
        ("custom-sized-16385", Custom(Sz::Sized, vec![D(16_385)])),
        ("custom-stream-16385-3", Custom(Sz::Stream, vec![D(16_385), D(3)])),
        ("custom-stream-3-16385", Custom(Sz::Stream, vec![D(3), D(16_385)])),
        ("custom-stream-40000", Custom(Sz::Stream, vec![D(40_000)])),
        ("sizedstream-20000-20000", SizedStream(vec![D(20_000), D(20_000)])),
    ];
    for (bn, body) in &big {
        for win in [16_383u32, 16_384, 16_385, 65_535] {
            v.push(one(&format!("{bn}-w{win}"), win, St::get(body.clone())));
        }
    }
    v.push(scn("bytes65580-w65535-connsmall", 65_535, SMALL_CONN, vec![St::get(Bytes(65_580))]));
    v.push(scn("bytes65580-w16384-connsmall", 16_384, SMALL_CONN, vec![St::get(Bytes(65_580))]));
    v.push(scn("custom-stream-40000-25580-w65535-connsmall", 65_535, SMALL_CONN, vec![St::get(Custom(Sz::Stream, vec![D(40_000), D(25_580)]))]));
    v.push(one("str0-w7", 7, St::get(Str(0))));
    v.push(one("bytes0-w7", 7, St::get(Bytes(0))));
    v.push(one("unit-w7", 7, St::get(Unit)));
    v.push(one("nobody-w7", 7, St::get(NoBody)));
    v.push(one("bodystream-empty-w7", 7, St::get(BodyStream(vec![]))));
    v.push(one("custom-none-5-w7", 7, St::get(Custom(Sz::None, vec![D(5)]))));
    v.push(one("custom-stream-nochunks-w7", 7, St::get(Custom(Sz::Stream, vec![]))));
    v.push(one("custom-sized-nochunks-w7", 7, St::get(Custom(Sz::Sized, vec![]))));
    v.push(one("boxed-bytes45-w7", 7, St::get(Bytes(45)).boxed()));
    v.push(one("boxed-custom-stream-10-30-w7", 7, St::get(Custom(Sz::Stream, vec![D(10), D(30)])).boxed()));
    v.push(one("boxed-bodystream-5-9-w7", 7, St::get(BodyStream(vec![D(5), D(9)])).boxed()));
    v.push(one("svcerr-w7", 7, St::get(SvcErr)));
    v.push(one("bytes45-w7-bydrop", 7, St::get(Bytes(45))).by_drop());
    v.push(one("bytes45-w7-yields", 7, St::get(Bytes(45)).yields(3)));

    // ---- empty chunks in a hand-written body (Appendix C row 8)
    v.push(one("custom-stream-2-e-2-w7", 7, St::get(Custom(Sz::Stream, vec![D(2), E, D(2)]))));
    v.push(one("custom-stream-2-e-2-w65535", 65_535, St::get(Custom(Sz::Stream, vec![D(2), E, D(2)]))));
    v.push(one("custom-sized-2-e-2-w7", 7, St::get(Custom(Sz::Sized, vec![D(2), E, D(2)]))));
    v.push(one("custom-stream-e-4-w65535", 65_535, St::get(Custom(Sz::Stream, vec![E, D(4)]))));
    v.push(one("custom-stream-4-e-w65535", 65_535, St::get(Custom(Sz::Stream, vec![D(4), E]))));
    v.push(one("custom-stream-20-e-5-w7", 7, St::get(Custom(Sz::Stream, vec![D(20), E, D(5)]))));
    v.push(one("boxed-custom-stream-2-e-2-w7", 7, St::get(Custom(Sz::Stream, vec![D(2), E, D(2)])).boxed()));

    // ---- bodies that fail
    v.push(one("custom-stream-5-err-w7", 7, St::get(Custom(Sz::Stream, vec![D(5), Err]))));
    v.push(one("custom-stream-5-err-w65535", 65_535, St::get(Custom(Sz::Stream, vec![D(5), Err]))));
    v.push(one("custom-sized-5-err-5-w7", 7, St::get(Custom(Sz::Sized, vec![D(5), Err, D(5)]))));
    v.push(one("custom-stream-err-w7", 7, St::get(Custom(Sz::Stream, vec![Err]))));
    v.push(one("bodystream-12-err-w7", 7, St::get(BodyStream(vec![D(12), Err]))));
    v.push(one("sizedstream-12-err-3-w65535", 65_535, St::get(SizedStream(vec![D(12), Err, D(3)]))));

    // ---- B. HEAD
    v.push(one("head-bytes45-w7", 7, St::head(Bytes(45))));
    v.push(one("head-custom-stream-5-5-w7", 7, St::head(Custom(Sz::Stream, vec![D(5), D(5)]))));
    v.push(one("head-custom-sized-2-e-2-w7", 7, St::head(Custom(Sz::Sized, vec![D(2), E, D(2)]))));
    v.push(one("head-sizedstream-10-20-w65535", 65_535, St::head(SizedStream(vec![D(10), D(20)]))));
    v.push(one("head-unit-w7", 7, St::head(Unit)));

    // ---- C. bodiless statuses
    for status in [204u16, 304] {
        v.push(one(&format!("s{status}-bytes10-w7"), 7, St::get(Bytes(10)).status(status)));
        v.push(one(&format!("s{status}-bodystream-5-w65535"), 65_535, St::get(BodyStream(vec![D(5)])).status(status)));
        v.push(one(&format!("s{status}-unit-w7"), 7, St::get(Unit).status(status)));
        v.push(one(&format!("s{status}-nobody-w7"), 7, St::get(NoBody).status(status)));
        v.push(one(&format!("s{status}-custom-stream-3-w7"), 7, St::get(Custom(Sz::Stream, vec![D(3)])).status(status)));
    }
    v.push(one("s204-bodystream-5-userlen-w7", 7, St::get(BodyStream(vec![D(5)])).status(204).hdr("content-length", "$len")));
    v.push(one("s404-bytes10-w7", 7, St::get(Bytes(10)).status(404)));

    // ---- D. handler-set headers
    for (n, h, val) in [
        ("connection", "connection", "keep-alive"),
        ("connection-close", "connection", "close"),
        ("transfer-encoding", "transfer-encoding", "chunked"),
        ("keep-alive", "keep-alive", "timeout=5"),
        ("upgrade", "upgrade", "websocket"),
        ("proxy-connection", "proxy-connection", "keep-alive"),
    ] {
        v.push(one(&format!("hdr-{n}-bytes10-w7"), 7, St::get(Bytes(10)).hdr(h, val)));
    }
    v.push(one(
        "hdr-all-five-bodystream-w7",
        7,
        St::get(BodyStream(vec![D(6), D(6)]))
            .hdr("connection", "keep-alive, upgrade")
            .hdr("keep-alive", "timeout=5")
            .hdr("proxy-connection", "keep-alive")
            .hdr("transfer-encoding", "chunked")
            .hdr("upgrade", "h2c")
            .hdr("x-kept", "1"),
    ));
    v.push(one("hdr-all-five-head-w7", 7, St::head(Bytes(10)).hdr("connection", "close").hdr("transfer-encoding", "chunked").hdr("upgrade", "x").hdr("keep-alive", "x").hdr("proxy-connection", "x")));
    v.push(one("hdr-wronglen-bytes10-w7", 7, St::get(Bytes(10)).hdr("content-length", "999")));
    v.push(one("hdr-wronglen-custom-sized-w7", 7, St::get(Custom(Sz::Sized, vec![D(4), D(4)])).hdr("content-length", "3")));
    v.push(one("hdr-truelen-bodystream-w7", 7, St::get(BodyStream(vec![D(6), D(6)])).hdr("content-length", "$len")));
    v.push(one("hdr-truelen-custom-stream-w65535", 65_535, St::get(Custom(Sz::Stream, vec![D(6), D(6)])).hdr("content-length", "$len")));
    v.push(one("hdr-len-nobody-w7", 7, St::get(NoBody).hdr("content-length", "12")));
    v.push(one("hdr-len-head-bodystream-w7", 7, St::head(BodyStream(vec![D(6), D(6)])).hdr("content-length", "$len")));
    v.push(one("hdr-truelen-twice-bytes10-w7", 7, St::get(Bytes(10)).hdr("content-length", "$len").hdr("content-length", "$len")));

    // ---- E. concurrent streams
    v.push(scn("two-bytes30-custom-w7", 7, 65_535, vec![St::get(Bytes(30)), St::get(Custom(Sz::Stream, vec![D(8), D(20)]))]).core());
    v.push(scn("two-bytes40000-bytes45-w16384", 16_384, 65_535, vec![St::get(Bytes(40_000)), St::get(Bytes(45))]));
    v.push(scn("three-mixed-w7", 7, 65_535, vec![St::get(Bytes(20)), St::head(Bytes(20)), St::get(BodyStream(vec![D(9), Pend, D(9)]))]));
    v.push(scn("two-bytes40-connsmall-w7", 7, SMALL_CONN, vec![St::get(Bytes(40)), St::get(Bytes(40))]));
    v.push(scn("two-bytes65580-bytes45-connsmall-w65535", 65_535, SMALL_CONN, vec![St::get(Bytes(65_580)), St::get(Bytes(45))]));
    v.push(scn("stalled-bytes30-and-bytes30-w7", 7, 65_535, vec![St::get(Bytes(30)).stalled(), St::get(Bytes(30))]).core());
    v.push(scn("stalled-bytes40000-and-bytes40000-w16384", 16_384, 65_535, vec![St::get(Bytes(40_000)).stalled(), St::get(Bytes(40_000))]));
    v.push(scn("stalled-custom-and-two-w7", 7, 65_535, vec![St::get(Bytes(25)), St::get(Custom(Sz::Stream, vec![D(10), D(10)])).stalled(), St::get(SizedStream(vec![D(10), D(10)]))]));
    v.push(scn("stalled-bytes20-and-bytes20-w1", 1, 65_535, vec![St::get(Bytes(10)).stalled(), St::get(Bytes(10))]));
    v.push(scn("stalled-both-w7", 7, 65_535, vec![St::get(Bytes(20)).stalled(), St::get(Bytes(20)).stalled()]));
    v.push(scn("emptychunk-and-bytes30-w7", 7, 65_535, vec![St::get(Custom(Sz::Stream, vec![D(2), E, D(2)])), St::get(Bytes(30))]));
    v.push(scn("errbody-and-bytes30-w7", 7, 65_535, vec![St::get(Custom(Sz::Stream, vec![D(9), Err])), St::get(Bytes(30))]));
    v.push(scn("s204-and-head-and-bytes-w7", 7, 65_535, vec![St::get(Bytes(10)).status(204), St::head(Bytes(10)), St::get(Bytes(10))]));

    v.push(scn("two-bytes30-custom-w7-bydrop", 7, 65_535, vec![St::get(Bytes(30)), St::get(Custom(Sz::Stream, vec![D(8), D(20)]))]).by_drop());
    v.push(scn("late-second-w7", 7, 65_535, vec![St::get(Bytes(30)), St::get(Custom(Sz::Stream, vec![D(8), D(20)])).start(2)]));
    v.push(scn("late-second-while-first-stalled-w16384", 16_384, 65_535, vec![St::get(Bytes(40_000)).stalled(), St::get(Bytes(45)).start(3)]));
    v.push(scn("late-second-while-first-stalled-w7", 7, 65_535, vec![St::get(Bytes(30)).stalled(), St::get(Bytes(30)).start(3), St::head(Bytes(30)).start(4)]));
    v.push(scn("three-yielding-handlers-w7", 7, 65_535, vec![St::get(Bytes(20)).yields(2), St::get(Bytes(20)), St::get(BodyStream(vec![D(9), Pend, D(9)])).yields(1)]));

    // a service that takes one call at a time, busy with a handler that waits for the other stream:
    // the connection (frames, window updates) must be driven all the same
    for (name, win, big) in [("busy-service-big-and-waiting-w16384", 16_384u32, 40_000usize), ("busy-service-big-and-waiting-w7", 7, 30)] {
        let mut s = scn(name, win, 65_535, vec![St::get(Bytes(big)), St::get(Bytes(10)).wait_for(0).start(1)]);
        s.one_at_a_time = true;
        s.resets = false;
        v.push(s);
    }

    // ---- F. the receive direction: uploads against the server's windows
    v.push(scn("up100-srv16-all-echo-w7", 7, 65_535, vec![St::post(100, 16_384, Read::All, Echo)]).srv(16, None).core());
    v.push(scn("up100-srv16-slow-echo-w65535", 65_535, 65_535, vec![St::post(100, 16_384, Read::Slow, Echo)]).srv(16, None));
    v.push(scn("up100-srv16-frame5-all-w65535", 65_535, 65_535, vec![St::post(100, 5, Read::All, Bytes(10))]).srv(16, None));
    v.push(scn("up100-srv16-nothing-w7", 7, 65_535, vec![St::post(100, 16_384, Read::Nothing, Bytes(20))]).srv(16, None));
    v.push(scn("up100-srv65535-all-w7", 7, 65_535, vec![St::post(100, 16_384, Read::All, Echo)]).srv(65_535, None));
    v.push(scn("up70000-srv65535-all-w65535", 65_535, 65_535, vec![St::post(70_000, 16_384, Read::All, Bytes(10))]).srv(65_535, Some(65_535)));
    v.push(scn("up70000-srv65535-slow-echo-w65535", 65_535, 65_535, vec![St::post(70_000, 16_384, Read::Slow, Echo)]).srv(65_535, Some(65_535)));
    v.push(scn("up65580-srv65535-srvconn16-all-w65535", 65_535, 65_535, vec![St::post(65_580, 16_384, Read::All, Bytes(10))]).srv(65_535, Some(16)));
    v.push(scn("up100-srv16-srvconn-all-w7", 7, 65_535, vec![St::post(100, 16_384, Read::All, Echo)]).srv(16, Some(65_535)));
    v.push(scn("two-up60-srv16-all-slow-w7", 7, 65_535, vec![St::post(60, 16_384, Read::All, Echo), St::post(60, 16_384, Read::Slow, Bytes(9))]).srv(16, None));
    v.push(scn("up-nothing-and-up-all-srv16-w7", 7, 65_535, vec![St::post(60, 16_384, Read::Nothing, Bytes(9)), St::post(60, 16_384, Read::All, Echo)]).srv(16, None));
    v.push(scn("up-all-and-get-srv16-w7", 7, 65_535, vec![St::post(60, 7, Read::All, Echo), St::get(Bytes(30))]).srv(16, None));
    // (no reset-by-drop with an upload in flight: h2 0.3.27 as a CLIENT then emits an endless run of
    // zero-length DATA frames — a defect of the peer library, not of the server)
    v.push(scn("up-late-and-stalled-get-srv16-w7", 7, 65_535, vec![St::get(Bytes(30)).stalled(), St::post(60, 16_384, Read::Slow, Echo).start(2)]).srv(16, None));
    v.push(scn("up0-post-w7", 7, 65_535, vec![St::post(0, 16_384, Read::All, Bytes(5))]).srv(16, None));

    v
}
