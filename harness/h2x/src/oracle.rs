//! Oracle for C08, clause by clause (DESIGN §4 C08). Every clause is a literal reading of the
//! property statement; the signature classifies WHAT fails without run-specific data.

use crate::run::{End, Exec};
use crate::spec::*;

pub struct Finding {
    pub clause: &'static str,
    pub signature: String,
    pub what: String,
}

pub const FORBIDDEN: [&str; 5] = ["connection", "keep-alive", "proxy-connection", "transfer-encoding", "upgrade"];

fn bodiless_tag(st: &St, status: u16) -> String {
    if st.method == "HEAD" {
        "HEAD".into()
    } else {
        status.to_string()
    }
}

/// did some body chunk arrive in more than one DATA frame because of the window (not merely
/// because of the 16 384-byte cap)?
pub fn window_split(exp: &Expect, frames: &[usize]) -> bool {
    let mut c = 0usize;
    let total: usize = frames.iter().sum();
    for f in frames {
        c += f;
        if *f == 0 || c >= total {
            continue;
        }
        if exp.chunk_ends.contains(&c) {
            continue;
        }
        let start = exp.chunk_ends.iter().copied().filter(|e| *e < c).max().unwrap_or(0);
        if (c - start) % 16_384 != 0 {
            return true;
        }
    }
    false
}

pub fn check(scn: &Scn, ex: &Exec) -> Vec<Finding> {
    let mut out = vec![];
    let exps: Vec<Expect> = scn.streams.iter().enumerate().map(|(i, s)| expect(i, s)).collect();
    // another stream that is slow, reset or stuck exists (for the independence clause)
    let disturbed = |me: usize| -> bool {
        scn.streams.iter().enumerate().any(|(j, s)| {
            j != me && (s.client == Client::Stalled || ex.obs[j].client_reset.is_some() || exps[j].first_empty_at.is_some())
        })
    };

    if let Some((loc, msg)) = &ex.task_panic {
        let tail = loc.rsplit("/repo/").next().unwrap_or(loc);
        let tail = tail.rsplit("registry/src/").next().unwrap_or(tail);
        out.push(Finding {
            clause: "panic",
            signature: format!("panic@{tail}"),
            what: format!("a task panicked while serving the connection at {loc}: {msg}"),
        });
    }

    for (i, st) in scn.streams.iter().enumerate() {
        let exp = &exps[i];
        let o = &ex.obs[i];
        let tag = format!(
            "stream s{i} ({} -> {} {:?}{}, client window {} / conn {})",
            st.method,
            exp.expect_status,
            st.body,
            if st.boxed { " boxed" } else { "" },
            scn.win,
            scn.conn_win
        );

        // (d) connection-specific headers
        if o.status.is_some() {
            for h in FORBIDDEN {
                if o.headers.contains_key(h) {
                    out.push(Finding {
                        clause: "d",
                        signature: format!("connection-header:{h}"),
                        what: format!("{tag}: response carries the connection-specific header `{h}`: {:?}", o.headers.get(h)),
                    });
                }
            }
        }

        // (c) no DATA for HEAD / bodiless statuses
        let mut bytes_reported = false;
        if exp.bodiless && o.data_len > 0 {
            bytes_reported = true;
            out.push(Finding {
                clause: "c",
                signature: format!("data-on-bodiless:{}", bodiless_tag(st, exp.expect_status)),
                what: format!(
                    "{tag}: {} bytes of DATA were sent on a response that must not have a body (frames {:?})",
                    o.data_len, o.frames
                ),
            });
        }

        // (a) what arrived is a prefix of what the body produced
        if !bytes_reported && !exp.bytes.starts_with(&o.data) {
            bytes_reported = true;
            let sig = if o.data.starts_with(&exp.bytes) {
                "bytes:extra".to_string()
            } else {
                "bytes:differ".to_string()
            };
            let at = o.data.iter().zip(exp.bytes.iter()).position(|(a, b)| a != b).unwrap_or(exp.bytes.len().min(o.data.len()));
            out.push(Finding {
                clause: "a",
                signature: sig,
                what: format!(
                    "{tag}: received {} bytes that are not a prefix of the {} bytes the body produced (first difference at offset {at}; frames {:?})",
                    o.data_len,
                    exp.bytes.len(),
                    o.frames
                ),
            });
        }

        // (b) content-length
        if let Some(vals) = o.headers.get("content-length") {
            if vals.len() > 1 {
                out.push(Finding {
                    clause: "b",
                    signature: "content-length:repeated".into(),
                    what: format!("{tag}: more than one content-length: {vals:?}"),
                });
            } else if let Some(full) = exp.full_len {
                match vals[0].parse::<usize>() {
                    Ok(v) if v == full => {}
                    Ok(v) => {
                        let class = if exp.bodiless {
                            format!("nonzero-on-{}", bodiless_tag(st, exp.expect_status))
                        } else if v < full {
                            "less-than-body".into()
                        } else {
                            "more-than-body".into()
                        };
                        out.push(Finding {
                            clause: "b",
                            signature: format!("content-length:{class}"),
                            what: format!("{tag}: content-length says {v}, the message body has {full} bytes"),
                        });
                    }
                    Err(_) => out.push(Finding {
                        clause: "b",
                        signature: "content-length:unparsable".into(),
                        what: format!("{tag}: content-length {:?}", vals[0]),
                    }),
                }
            }
        }

        if o.client_reset.is_some() {
            // the peer gave up on this stream: nothing more is owed on it
            continue;
        }

        // (g) request body
        if let Some(u) = &st.upload {
            if u.read != Read::Nothing {
                if !o.h_read_ok {
                    out.push(Finding {
                        clause: "g",
                        signature: "upload:corrupt".into(),
                        what: format!("{tag}: the handler read {} request-body bytes that differ from what the client sent", o.h_read),
                    });
                } else if o.h_read_end.starts_with("err") {
                    out.push(Finding {
                        clause: "g",
                        signature: "upload:error".into(),
                        what: format!(
                            "{tag}: the handler's payload ended with {} after {} of {} bytes (client sent {}, upload {})",
                            o.h_read_end, o.h_read, u.len, o.up_sent, o.up_state
                        ),
                    });
                } else if o.h_read_end == "eof" && o.h_read != u.len {
                    out.push(Finding {
                        clause: "g",
                        signature: "upload:short-eof".into(),
                        what: format!("{tag}: the handler saw a clean end of the request body after {} of {} bytes", o.h_read, u.len),
                    });
                } else if o.h_read_end == "open" {
                    out.push(Finding {
                        clause: "g",
                        signature: "upload:stalled".into(),
                        what: format!(
                            "{tag}: the upload never finishes: the client could send {} of {} bytes (server stream window {:?}, connection window {:?}), the handler read {}",
                            o.up_sent, u.len, scn.srv_win, scn.srv_conn_win, o.h_read
                        ),
                    });
                    continue; // the missing response is a consequence
                }
            }
        }

        // (a)/(f) completion. Every stream that the client did not reset has been granted all the
        // window it needs by now (stalled streams were released in phase 2).
        let early_reply = st.upload.as_ref().map(|u| u.read == Read::Nothing).unwrap_or(false);
        match (&o.end, exp.clean_end) {
            (End::Clean, true) => {
                if o.data != exp.bytes && !bytes_reported {
                    out.push(Finding {
                        clause: "a",
                        signature: "bytes:short-clean-end".into(),
                        what: format!(
                            "{tag}: the stream ended cleanly after {} of {} bytes (frames {:?})",
                            o.data_len,
                            exp.bytes.len(),
                            o.frames
                        ),
                    });
                }
            }
            (End::Clean, false) => out.push(Finding {
                clause: "f",
                signature: "error-body:clean-end".into(),
                what: format!(
                    "{tag}: the body failed after {} bytes but the stream was ended with END_STREAM ({} bytes received) instead of a reset",
                    exp.bytes.len(),
                    o.data_len
                ),
            }),
            (End::Error(e), true) => {
                // RFC 7540 §8.1: a complete response followed by RST_STREAM(NO_ERROR) when the
                // server did not need the rest of the request; the h2 client surfaces that as an
                // error after the last byte.
                let benign = early_reply && e == "reset:remote:NO_ERROR" && o.data == exp.bytes && o.status.is_some();
                if !benign {
                    out.push(Finding {
                        clause: "a",
                        signature: format!("server-reset:{e}:{}", if o.status.is_none() { "before-head" } else { "in-body" }),
                        what: format!(
                            "{tag}: the body did not fail and the client did not reset, but the stream ended with {e} after {} of {} bytes",
                            o.data_len,
                            exp.bytes.len()
                        ),
                    });
                }
            }
            (End::Error(_), false) => {}
            (End::Open, _) => {
                let phase = if o.status.is_none() {
                    "no-response"
                } else if o.data_len < exp.bytes.len() {
                    "mid-body"
                } else {
                    "awaiting-end"
                };
                if o.status.is_some() && exp.first_empty_at == Some(o.data_len) {
                    out.push(Finding {
                        clause: "f",
                        signature: "hang:empty-chunk".into(),
                        what: format!(
                            "{tag}: the body yields an EMPTY chunk at offset {}; the {} bytes before it arrive, then nothing more is ever sent and the stream never ends ({} bytes were produced in total), although the client has released every byte it received",
                            o.data_len,
                            o.data_len,
                            exp.bytes.len()
                        ),
                    });
                } else if disturbed(i) {
                    out.push(Finding {
                        clause: "e",
                        signature: format!("blocked-by-other-stream:{phase}"),
                        what: format!(
                            "{tag}: never completes ({} of {} bytes, frames {:?}) while another stream is stalled, reset or stuck, although the client released everything it received on this one",
                            o.data_len,
                            exp.bytes.len(),
                            o.frames
                        ),
                    });
                } else {
                    out.push(Finding {
                        clause: "f",
                        signature: format!("hang:{phase}"),
                        what: format!(
                            "{tag}: never completes: {} of {} bytes received (frames {:?}), every received byte was released, nothing more arrives",
                            o.data_len,
                            exp.bytes.len(),
                            o.frames
                        ),
                    });
                }
            }
        }
    }
    out
}
