//! Transparent wrapper around the server's end of the pipe that decodes HTTP/2 frame headers in
//! both directions (for replay output only; it never alters, delays or splits anything).

use std::cell::RefCell;
use std::io;
use std::pin::Pin;
use std::rc::Rc;
use std::task::{Context, Poll};
use tokio::io::{AsyncRead, AsyncWrite, DuplexStream, ReadBuf};

#[derive(Default)]
struct Dir {
    buf: Vec<u8>,
    preface_done: bool,
}

pub struct Wire {
    io: DuplexStream,
    from_client: Dir,
    to_client: Dir,
    pub log: Rc<RefCell<Vec<String>>>,
    echo: bool,
}

fn ty(t: u8) -> &'static str {
    match t {
        0 => "DATA",
        1 => "HEADERS",
        2 => "PRIORITY",
        3 => "RST_STREAM",
        4 => "SETTINGS",
        5 => "PUSH_PROMISE",
        6 => "PING",
        7 => "GOAWAY",
        8 => "WINDOW_UPDATE",
        9 => "CONTINUATION",
        _ => "?",
    }
}

impl Wire {
    pub fn new(io: DuplexStream, log: Rc<RefCell<Vec<String>>>) -> Self {
        let mut w = Wire { io, from_client: Dir::default(), to_client: Dir::default(), log, echo: std::env::var("H2X_ECHO").is_ok() };
        w.to_client.preface_done = true;
        w
    }
    fn feed(&mut self, from_client: bool, bytes: &[u8]) {
        let d = if from_client { &mut self.from_client } else { &mut self.to_client };
        d.buf.extend_from_slice(bytes);
        if !d.preface_done {
            if d.buf.len() < 24 {
                return;
            }
            d.buf.drain(..24);
            d.preface_done = true;
        }
        loop {
            if d.buf.len() < 9 {
                return;
            }
            let len = ((d.buf[0] as usize) << 16) | ((d.buf[1] as usize) << 8) | d.buf[2] as usize;
            if d.buf.len() < 9 + len {
                return;
            }
            let t = d.buf[3];
            let flags = d.buf[4];
            let sid = u32::from_be_bytes([d.buf[5] & 0x7f, d.buf[6], d.buf[7], d.buf[8]]);
            let extra = match t {
                3 | 8 if len >= 4 => format!(" value={}", u32::from_be_bytes([d.buf[9] & 0x7f, d.buf[10], d.buf[11], d.buf[12]])),
                7 if len >= 8 => format!(" error={}", u32::from_be_bytes([d.buf[13], d.buf[14], d.buf[15], d.buf[16]])),
                _ => String::new(),
            };
            let line = format!(
                "    wire {} {} stream={} len={} flags={:#04x}{}{}",
                if from_client { "C->S" } else { "S->C" },
                ty(t),
                sid,
                len,
                flags,
                if (t == 0 || t == 1) && flags & 1 != 0 { " END_STREAM" } else { "" },
                extra
            );
            if self.echo {
                eprintln!("{line}");
            }
            self.log.borrow_mut().push(line);
            d.buf.drain(..9 + len);
        }
    }
}

impl AsyncRead for Wire {
    fn poll_read(self: Pin<&mut Self>, cx: &mut Context<'_>, buf: &mut ReadBuf<'_>) -> Poll<io::Result<()>> {
        let this = self.get_mut();
        let before = buf.filled().len();
        let r = Pin::new(&mut this.io).poll_read(cx, buf);
        if let Poll::Ready(Ok(())) = &r {
            let new = buf.filled()[before..].to_vec();
            this.feed(true, &new);
        }
        r
    }
}

impl AsyncWrite for Wire {
    fn poll_write(self: Pin<&mut Self>, cx: &mut Context<'_>, data: &[u8]) -> Poll<io::Result<usize>> {
        let this = self.get_mut();
        let r = Pin::new(&mut this.io).poll_write(cx, data);
        if let Poll::Ready(Ok(n)) = &r {
            let n = *n;
            this.feed(false, &data[..n]);
        }
        r
    }
    fn poll_flush(self: Pin<&mut Self>, cx: &mut Context<'_>) -> Poll<io::Result<()>> {
        Pin::new(&mut self.get_mut().io).poll_flush(cx)
    }
    fn poll_shutdown(self: Pin<&mut Self>, cx: &mut Context<'_>) -> Poll<io::Result<()>> {
        Pin::new(&mut self.get_mut().io).poll_shutdown(cx)
    }
}
