//! h2x — decides C08 (HTTP/2 responses complete and well-described under any flow-control
//! schedule) by deviation-bounded exploration of the PEER's flow-control behaviour against the real
//! actix HTTP/2 server connection. See ENGINE_GUIDE.md / DESIGN.md §4 C08.

mod body;
mod oracle;
mod run;
mod scenarios;
mod spec;
mod wire;

use mc_core::explore::{self, Cfg, Outcome, Scenario};
use mc_core::report::{Evidence, Reporter, Violation};
use mc_core::Chooser;
use serde_json::{json, Value};
use std::time::{Duration, Instant};

struct Sc(spec::Scn);

/// Executions in flight per worker thread: (scenario, prefix picks, start). A watchdog thread turns
/// an execution that does not come back (some task spins, so the paused clock never advances and
/// `settle` never returns) into a reported case instead of a stuck check.
static INFLIGHT: std::sync::Mutex<Vec<(std::thread::ThreadId, String, Vec<u32>, Instant)>> = std::sync::Mutex::new(Vec::new());
static STARTED: std::sync::atomic::AtomicU64 = std::sync::atomic::AtomicU64::new(0);
const STUCK_AFTER: Duration = Duration::from_secs(60);

struct InflightGuard;
impl InflightGuard {
    fn enter(name: &str, prefix: &[u32]) -> Self {
        STARTED.fetch_add(1, std::sync::atomic::Ordering::Relaxed);
        let id = std::thread::current().id();
        INFLIGHT.lock().unwrap().push((id, name.to_string(), prefix.to_vec(), Instant::now()));
        InflightGuard
    }
}
impl Drop for InflightGuard {
    fn drop(&mut self) {
        let id = std::thread::current().id();
        let mut g = INFLIGHT.lock().unwrap();
        if let Some(p) = g.iter().position(|e| e.0 == id) {
            g.swap_remove(p);
        }
    }
}

fn start_watchdog(tier: String, replay_mode: bool) {
    std::thread::spawn(move || loop {
        std::thread::sleep(Duration::from_secs(2));
        let stuck = INFLIGHT.lock().unwrap().iter().find(|e| e.3.elapsed() > STUCK_AFTER).map(|e| (e.1.clone(), e.2.clone()));
        if let Some((name, picks)) = stuck {
            let what = format!(
                "scenario {name} with peer choices {picks:?}: the execution does not come back after {} s of wall time; some task of the connection keeps waking itself, so the run-until-stalled settle never ends (a livelock: no stream can complete)",
                STUCK_AFTER.as_secs()
            );
            if replay_mode {
                println!("FAILS clause=f signature=livelock:settle-never-returns");
                println!("  {what}");
                std::process::exit(1);
            }
            let v = Violation {
                property: "C08".into(),
                clause: "f".into(),
                signature: "livelock:settle-never-returns".into(),
                what: what.clone(),
                replay: json!({"scenario": name, "picks": picks}),
                weight: 0,
            };
            let path = mc_core::report::write_replay(&v);
            let mut ev = Evidence::new("C08", &tier, "exploration");
            let n = STARTED.load(std::sync::atomic::Ordering::Relaxed);
            ev.set("evaluations", n);
            ev.set("distinct_nontrivial", 0u64);
            ev.set("rule", "run aborted by the livelock watchdog; counts are executions started before the abort");
            ev.set("samples", json!([{"scenario": name, "picks": picks}]));
            ev.set("exhaustive", false);
            ev.set("capped", true);
            ev.violations = 1;
            ev.write();
            println!("VIOLATION property=C08 replay={}", path.display());
            println!("  clause=f signature=livelock:settle-never-returns");
            println!("  {what}");
            std::process::exit(1);
        }
    });
}

static MAX_POLLS: std::sync::atomic::AtomicU64 = std::sync::atomic::AtomicU64::new(0);

fn obs_value(scn: &spec::Scn, ex: &run::Exec) -> Value {
    json!({
        "scenario": scn.name,
        "streams": ex.obs,
    })
}

impl Scenario for Sc {
    fn name(&self) -> String {
        self.0.name.clone()
    }
    fn describe(&self) -> Value {
        serde_json::to_value(&self.0).unwrap()
    }
    fn run(&self, ch: &mut Chooser) -> Outcome {
        let scn = &self.0;
        if std::env::var("H2X_TRACE").is_ok() {
            eprintln!("TRACE {} prefix_len={}", scn.name, ch.prefix_len());
        }
        let guard = InflightGuard::enter(&scn.name, ch.prefix());
        let ex = run::execute(scn, ch);
        drop(guard);
        if ex.horizon {
            mc_core::machinery(format!(
                "scenario {} picks {:?}: still making progress after {} settle steps (horizon too small for this scenario)",
                scn.name,
                ch.picks(),
                run::MAX_STEPS
            ));
        }
        if ex.polls > run::POLL_BUDGET {
            mc_core::machinery(format!(
                "scenario {} picks {:?}: poll budget of {} exceeded (livelock between the peer library and the server)",
                scn.name,
                ch.picks(),
                run::POLL_BUDGET
            ));
        }
        MAX_POLLS.fetch_max(ex.polls, std::sync::atomic::Ordering::Relaxed);
        if let Some((loc, msg)) = &ex.task_panic {
            if loc.contains("/h2x/src/") || loc.contains("/mc-core/") {
                mc_core::machinery(format!("harness task panicked at {loc}: {msg}"));
            }
        }
        let findings = oracle::check(scn, &ex);
        let ov = obs_value(scn, &ex);
        let class = mc_core::fnv_str(&ov.to_string());
        let mut nontrivial = false;
        for (i, st) in scn.streams.iter().enumerate() {
            let exp = spec::expect(i, st);
            if oracle::window_split(&exp, &ex.obs[i].frames) {
                nontrivial = true;
            }
            if let (Some(u), Some(w)) = (&st.upload, scn.srv_win) {
                if u.len > w as usize && ex.obs[i].h_read == u.len && u.read != spec::Read::Nothing {
                    nontrivial = true;
                }
            }
        }
        let sample = if nontrivial {
            Some(json!({
                "scenario": scn.name,
                "client_stream_window": scn.win,
                "client_connection_window": scn.conn_win,
                "server_stream_window": scn.srv_win,
                "peer_choices": ch.trace.iter().enumerate().filter(|(_, p)| p.pick != 0)
                    .map(|(i, p)| json!({"at": i, "kind": p.kind, "pick": p.pick})).collect::<Vec<_>>(),
                "streams": scn.streams.iter().enumerate().map(|(i, st)| json!({
                    "request": st.method, "status": st.status, "body": format!("{:?}", st.body),
                    "data_frames": ex.obs[i].frames, "releases": ex.obs[i].releases,
                    "end": format!("{:?}", ex.obs[i].end), "client_reset_at_step": ex.obs[i].client_reset,
                })).collect::<Vec<_>>(),
                "settle_steps": ex.steps,
            }))
        } else {
            None
        };
        Outcome {
            violations: findings
                .into_iter()
                .map(|f| Violation {
                    property: "C08".into(),
                    clause: f.clause.into(),
                    signature: f.signature,
                    what: f.what,
                    replay: Value::Null,
                    weight: 0,
                })
                .collect(),
            class,
            nontrivial,
            sample,
        }
    }
}

fn main() {
    let args = mc_core::cli::parse();
    if args.property != "C08" {
        eprintln!("MACHINERY: engine h2x serves C08 only, not {}", args.property);
        std::process::exit(2);
    }
    let thorough = args.tier == "thorough";
    // H2X_ONLY=<substring> restricts the scenario set (development aid; evidence then says so)
    let only = std::env::var("H2X_ONLY").ok();
    let scns: Vec<Sc> = scenarios::all()
        .into_iter()
        .filter(|s| only.as_ref().map(|o| s.name.contains(o.as_str())).unwrap_or(true) || args.replay.is_some())
        .map(Sc)
        .collect();
    if std::env::var("H2X_LIST").is_ok() {
        for s in &scns {
            println!("{}", s.0.name);
        }
        return;
    }
    {
        let mut names = std::collections::HashSet::new();
        for s in &scns {
            if !names.insert(s.0.name.clone()) {
                eprintln!("MACHINERY: duplicate scenario name {}", s.0.name);
                std::process::exit(2);
            }
        }
    }

    start_watchdog(args.tier.clone(), args.replay.is_some());
    if let Some(path) = &args.replay {
        let file = mc_core::report::read_replay(path);
        let rp = if file.get("replay").is_some() { file["replay"].clone() } else { file.clone() };
        let name = rp["scenario"].as_str().unwrap_or("").to_string();
        let Some(sc) = scns.iter().find(|s| s.0.name == name) else {
            eprintln!("MACHINERY: scenario {name} not found");
            std::process::exit(2);
        };
        explore::install_panic_hook();
        let picks: Vec<u32> = rp["picks"].as_array().map(|a| a.iter().map(|x| x.as_u64().unwrap_or(0) as u32).collect()).unwrap_or_default();
        let kinds: Option<Vec<String>> = rp["kinds"].as_array().map(|a| a.iter().map(|x| x.as_str().unwrap_or("").to_string()).collect());
        let mut ch = match kinds {
            Some(k) if k.len() == picks.len() => Chooser::with_kinds(picks.clone(), k),
            _ => Chooser::new(picks.clone()),
        };
        println!("replay of scenario {name}");
        println!("{}", serde_json::to_string_pretty(&sc.describe()).unwrap());
        println!("picks: {picks:?}");
        let guard = InflightGuard::enter(&name, &picks);
        let res = std::panic::catch_unwind(std::panic::AssertUnwindSafe(|| run::execute(&sc.0, &mut ch)));
        drop(guard);
        let ex = match res {
            Ok(ex) => ex,
            Err(_) => {
                let (l, m) = explore::take_last_panic().unwrap_or_default();
                eprintln!("MACHINERY: replay panicked at {l}: {m}");
                std::process::exit(2);
            }
        };
        if !ch.prefix_consumed() {
            eprintln!("MACHINERY: replay divergence: execution ended after {} choice points, file has {}", ch.trace.len(), picks.len());
            std::process::exit(2);
        }
        for l in &ex.log {
            println!("  {l}");
        }
        if ex.polls > run::POLL_BUDGET {
            eprintln!("MACHINERY: poll budget of {} exceeded (livelock between the peer library and the server)", run::POLL_BUDGET);
            std::process::exit(2);
        }
        println!("observation: {}", serde_json::to_string_pretty(&obs_value(&sc.0, &ex)).unwrap());
        let findings = oracle::check(&sc.0, &ex);
        if findings.is_empty() {
            println!("RESULT: no oracle clause fails on this case");
            std::process::exit(0);
        }
        for f in &findings {
            println!("FAILS clause={} signature={}", f.clause, f.signature);
            println!("  {}", f.what);
        }
        std::process::exit(1);
    }

    let start = Instant::now();
    let mut reporter = Reporter::new("C08");
    let bounds: Vec<u32> = scns
        .iter()
        .map(|s| match (thorough, s.0.core) {
            (false, false) => 2,
            (false, true) => 3,
            (true, false) => 4,
            (true, true) => 5,
        })
        .collect();
    let wall = args.wall_s.unwrap_or(if thorough { 28 * 60 } else { 50 });
    let cfg = Cfg { wall: Duration::from_secs(wall), threads: mc_core::cli::threads(), max_unknown: 12 };
    let stats = explore::explore("C08", &scns, &bounds, &cfg, &mut reporter);

    let mut ev = Evidence::new("C08", &args.tier, "exploration");
    stats.fill(
        &mut ev,
        "each evaluation is one complete execution of the real actix HTTP/2 server connection against an h2 0.3 client whose flow-control behaviour is enumerated (after every DATA frame: release all / 1 byte / nothing; order of deferred releases; one RST_STREAM at any event boundary), for every scenario (windows x bodies x methods x statuses x headers x concurrent streams x uploads) and every combination of at most `deviation_bound_other_scenarios` (core scenarios: `deviation_bound_core_scenarios`) non-default peer answers. distinct = distinct canonical observation (per stream: status, headers by name with date masked, DATA frame sizes, release pattern, how the stream ended, what the handler read). non-trivial = in that execution some body chunk arrived split over >= 2 DATA frames at an offset forced by the peer's window (not by the 16 384 cap), or an upload larger than the server's stream window was read completely by the handler",
    );
    ev.set("scenario_names", json!(scns.iter().map(|s| s.0.name.clone()).collect::<Vec<_>>()));
    if let Some(o) = &only {
        ev.set("restricted_to_scenarios_containing", o.clone());
    }
    ev.set("max_polls_in_one_execution", MAX_POLLS.load(std::sync::atomic::Ordering::Relaxed));
    ev.set("poll_budget_per_execution", run::POLL_BUDGET);
    ev.set("deviation_bound_core_scenarios", if thorough { 5 } else { 3 });
    ev.set("deviation_bound_other_scenarios", if thorough { 4 } else { 2 });
    ev.set("findings", json!(reporter.summaries()));
    ev.assume("the h2 0.3.27 client and tokio's LocalSet/paused clock are deterministic for a fixed sequence of peer actions (checked: default and failing schedules are executed twice and must give identical observations)");
    ev.assume("task interleaving inside the server is the FIFO order of one LocalSet; only the peer's behaviour is enumerated, as the property quantifies over it");
    ev.assume("a reset is offered at every event boundary after the request HEADERS were flushed (h2 0.3.27 as a client would otherwise put a bare RST_STREAM for an idle stream on the wire, a protocol violation by the peer); reset-by-dropping-the-handles is not combined with an upload in flight (the same client library then emits zero-length DATA frames without end)");
    ev.assume("connection window 'small' means a target of 9 bytes: HTTP/2 fixes the initial connection window at 65 535, so it only bites once more than 65 535 bytes were sent; those scenarios use bodies of 65 580 bytes");
    ev.assume("response bodies report a truthful size(); handler-set content-length on streaming bodies is truthful");
    ev.wall_s = start.elapsed().as_secs_f64();
    ev.violations = reporter.unknown_count() as i64;
    ev.write();

    let code = reporter.finish();
    println!(
        "C08 {}: {} executions checked ({} incl. parents), {} scenarios, deviation bound completed {} (requested {}), {} observation classes, {} non-trivial, capped={}, {:.1}s",
        args.tier,
        stats.checked,
        stats.executions,
        stats.scenarios,
        stats.bound_completed,
        stats.max_bound_requested,
        stats.classes.len(),
        stats.nontrivial_classes.len(),
        stats.capped,
        start.elapsed().as_secs_f64()
    );
    std::process::exit(code);
}
