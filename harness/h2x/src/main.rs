fn main() {
    eprintln!("MACHINERY: engine h2x is not built yet");
    std::process::exit(2);
}
