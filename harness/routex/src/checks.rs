//! Observation of the real `actix_router` API and the oracle clauses of C10.
//!
//! clause ids (DESIGN.md §4 C10):
//!  a  is_match ⇔ find_match.is_some() ⇔ capture_match_info, and the two lengths agree
//!  b  match / length / captures equal the reference; captures are substrings at the right offsets;
//!     unprocessed remainder is what follows the matched length; a failed match leaves Path alone
//!  c  a match ends only at a segment boundary (prefix) or at the end (full)
//!  d  resource_path_from_iter / _from_map build the documented concatenation, it matches, and
//!     (when the decomposition is unique) yields the values back
//!  e  Quoter / Url partial percent-decoding equals the reference decoder
//!  f  Path::load returns the full percent-decoding of the captured substrings in pattern order
//!  g  the same clauses on paths whose offsets sit at the top of the 16-bit range

use crate::refm::*;
use actix_router::{Path, Quoter, ResourceDef, Url};
use serde::Deserialize;
use serde_json::{json, Value};
use std::cell::RefCell;
use std::collections::HashMap;
use std::panic::{catch_unwind, AssertUnwindSafe};

#[derive(Clone, Debug)]
pub struct Fail {
    pub clause: &'static str,
    pub sig: String,
    pub what: String,
}

fn fail(out: &mut Vec<Fail>, clause: &'static str, sig: String, what: String) {
    out.push(Fail { clause, sig, what });
}

thread_local! {
    static LAST_PANIC: RefCell<String> = const { RefCell::new(String::new()) };
}

pub fn install_quiet_panic_hook() {
    std::panic::set_hook(Box::new(|info| {
        let msg = if let Some(s) = info.payload().downcast_ref::<&str>() {
            s.to_string()
        } else if let Some(s) = info.payload().downcast_ref::<String>() {
            s.clone()
        } else if let Some(m) = info.payload().downcast_ref::<mc_core::MachineryError>() {
            format!("MACHINERY: {}", m.0)
        } else {
            "<non-string panic>".to_string()
        };
        let loc = info.location().map(|l| format!(" at {}:{}", l.file(), l.line())).unwrap_or_default();
        LAST_PANIC.with(|p| *p.borrow_mut() = format!("{msg}{loc}"));
    }));
}

/// Run `f`; a panic becomes a violation of `clause` (a machinery panic is re-raised).
pub fn guarded(clause: &'static str, kind: &str, f: impl FnOnce() -> Vec<Fail>) -> Vec<Fail> {
    match catch_unwind(AssertUnwindSafe(f)) {
        Ok(v) => v,
        Err(payload) => {
            if payload.downcast_ref::<mc_core::MachineryError>().is_some() {
                std::panic::resume_unwind(payload);
            }
            let msg = LAST_PANIC.with(|p| p.borrow().clone());
            // the signature names the panic site (file:line is stable for a given tree) but not the input
            let site = msg.rsplit(" at ").next().unwrap_or("").rsplit('/').next().unwrap_or("").to_string();
            vec![Fail { clause, sig: format!("panic;{kind};at={site}"), what: format!("panicked: {msg}") }]
        }
    }
}

pub fn build_def(spec: &Spec) -> ResourceDef {
    let texts = spec.texts();
    match (spec.list, spec.prefix) {
        (false, false) => ResourceDef::new(texts[0].clone()),
        (false, true) => ResourceDef::prefix(texts[0].clone()),
        (true, false) => ResourceDef::new(actix_router::Patterns::List(texts)),
        (true, true) => ResourceDef::prefix(actix_router::Patterns::List(texts)),
    }
}

/// What the real API said about one (resource, path).
#[derive(Clone, Debug, PartialEq, Eq)]
pub struct RealObs {
    pub is_match: bool,
    pub find_match: Option<usize>,
    pub capture: bool,
    /// (name, start offset in path or usize::MAX when the value does not point into the path, value)
    pub caps: Vec<(String, usize, String)>,
    /// offset at which `Path::unprocessed()` starts after `capture_match_info`
    pub consumed: usize,
}

impl RealObs {
    pub fn to_json(&self) -> Value {
        json!({"is_match": self.is_match, "find_match": self.find_match, "capture_match_info": self.capture,
               "captures": self.caps.iter().map(|(n, s, v)| json!({"name": n, "start": if *s == usize::MAX { Value::Null } else { json!(s) }, "value": v})).collect::<Vec<_>>(),
               "consumed": self.consumed})
    }
}

fn offset_in(path: &str, v: &str) -> usize {
    let base = path.as_ptr() as usize;
    let p = v.as_ptr() as usize;
    if p >= base && p + v.len() <= base + path.len() {
        p - base
    } else {
        usize::MAX
    }
}

fn collect_caps(path: &str, p: &Path<&str>) -> Vec<(String, usize, String)> {
    p.iter().map(|(n, v)| (n.to_string(), offset_in(path, v), v.to_string())).collect()
}

pub fn observe(rd: &ResourceDef, path: &str) -> RealObs {
    let is_match = rd.is_match(path);
    let find_match = rd.find_match(path);
    let mut p = Path::new(path);
    let capture = rd.capture_match_info(&mut p);
    let caps = if p.segment_count() > 0 { collect_caps(path, &p) } else { Vec::new() };
    let consumed = path.len() - p.unprocessed().len();
    RealObs { is_match, find_match, capture, caps, consumed }
}

pub fn ref_all(spec: &Spec, path: &[u8]) -> Vec<Option<RefMatch>> {
    spec.pats.iter().map(|p| ref_match(p, spec.prefix, path)).collect()
}

pub fn ref_json(spec: &Spec, path: &str, refs: &[Option<RefMatch>]) -> Value {
    Value::Array(
        refs.iter()
            .zip(&spec.pats)
            .map(|(r, p)| match r {
                None => Value::Null,
                Some(m) => json!({"len": m.len, "captures": m.caps.iter().zip(p.names()).map(|(&(s, e), n)| json!({"name": n, "start": s, "value": &path[s..e]})).collect::<Vec<_>>()}),
            })
            .collect(),
    )
}

/// Per-case information handed back to the driver for coverage statistics.
#[derive(Default, Clone, Debug)]
pub struct CaseInfo {
    pub matched: bool,
    pub ncaps: usize,
    /// (matched length, capture lengths) when matched
    pub shape: Vec<usize>,
    /// list resources: the real choice equals a later pattern's reference, not the first matching one
    pub list_nonfirst: bool,
}

/// Clauses a, b, c for one resource and one path.
pub fn check_match(spec: &Spec, rd: &ResourceDef, path: &str, info: &mut CaseInfo) -> Vec<Fail> {
    let mut out = Vec::new();
    let pb = path.as_bytes();
    let kind = spec.kind();
    let refs = ref_all(spec, pb);
    let first = refs.iter().position(|r| r.is_some());
    let obs = observe(rd, path);

    // ---- clause a: the three questions agree
    if !(obs.is_match == obs.find_match.is_some() && obs.is_match == obs.capture) {
        fail(
            &mut out,
            "a",
            format!("disagree:is_match={},find_match={},capture={};{kind}", obs.is_match as u8, obs.find_match.is_some() as u8, obs.capture as u8),
            format!("{} on {:?}: is_match={} find_match={:?} capture_match_info={}", spec.label(), path, obs.is_match, obs.find_match, obs.capture),
        );
    }
    if let (Some(n), true) = (obs.find_match, obs.capture) {
        if n != obs.consumed {
            fail(
                &mut out,
                "a",
                format!("length-disagree:find_match-vs-capture;{kind}"),
                format!("{} on {:?}: find_match says {} but capture_match_info consumed {}", spec.label(), path, n, obs.consumed),
            );
        }
    }

    // ---- clause c: where a match may end (stated directly on the real answers)
    for (api, n) in [("find_match", obs.find_match), ("capture_match_info", obs.capture.then_some(obs.consumed))] {
        if let Some(n) = n {
            let ok = n <= pb.len() && if spec.prefix { n == pb.len() || pb[n] == b'/' } else { n == pb.len() };
            if !ok {
                fail(
                    &mut out,
                    "c",
                    format!("{}:{api};{kind}", if spec.prefix { "prefix-stops-inside-segment" } else { "full-match-not-at-end" }),
                    format!("{} on {:?}: {api} ends the match at {} which is not {}", spec.label(), path, n, if spec.prefix { "a segment boundary" } else { "the end of the path" }),
                );
            }
        }
    }

    // ---- clause b: agreement with the reference
    let ref_matched = first.is_some();
    let mut wrong = Vec::new();
    for (api, got) in [("is_match", obs.is_match), ("find_match", obs.find_match.is_some()), ("capture_match_info", obs.capture)] {
        if got != ref_matched {
            wrong.push(api);
        }
    }
    if !wrong.is_empty() {
        fail(
            &mut out,
            "b",
            format!("{}:{};{kind}", if ref_matched { "rejects-member" } else { "accepts-nonmember" }, wrong.join("+")),
            format!(
                "{} on {:?}: by the documented pattern language the path {} but {} said otherwise (reference: {})",
                spec.label(),
                path,
                if ref_matched { "matches" } else { "does not match" },
                wrong.join(", "),
                ref_json(spec, path, &refs)
            ),
        );
    }

    if !obs.capture {
        if obs.consumed != 0 || !obs.caps.is_empty() {
            fail(
                &mut out,
                "b",
                format!("failed-capture-mutated-path;{kind}"),
                format!("{} on {:?}: capture_match_info returned false but left skip={} segments={:?}", spec.label(), path, obs.consumed, obs.caps),
            );
        }
    }

    if let (Some(fi), true) = (first, obs.capture) {
        // which pattern of a list did the real code use? prefer the first matching one
        let real_ranges: Vec<(usize, usize)> = obs.caps.iter().map(|(_, s, v)| (*s, s.wrapping_add(v.len()))).collect();
        let chosen = std::iter::once(fi)
            .chain((0..refs.len()).filter(|&i| i != fi))
            .find(|&i| refs[i].as_ref().is_some_and(|m| m.len == obs.consumed && m.caps == real_ranges))
            .unwrap_or(fi);
        if chosen != fi {
            info.list_nonfirst = true;
        }
        let m = refs[chosen].as_ref().unwrap();
        let pat = &spec.pats[chosen];
        let names = pat.names();

        if obs.consumed != m.len {
            fail(
                &mut out,
                "b",
                format!("matched-length-differs:capture;{kind}"),
                format!("{} on {:?}: capture_match_info consumed {} (unprocessed {:?}), reference length {}", spec.label(), path, obs.consumed, &path[obs.consumed.min(path.len())..], m.len),
            );
        }
        if let Some(n) = obs.find_match {
            if n != m.len {
                fail(
                    &mut out,
                    "b",
                    format!("matched-length-differs:find_match;{kind}"),
                    format!("{} on {:?}: find_match = {}, reference length {}", spec.label(), path, n, m.len),
                );
            }
        }
        let real_names: Vec<&str> = obs.caps.iter().map(|c| c.0.as_str()).collect();
        if real_names != names {
            fail(
                &mut out,
                "b",
                format!("capture-names-differ;{kind}"),
                format!("{} on {:?}: captured names {:?}, pattern order is {:?}", spec.label(), path, real_names, names),
            );
        } else if obs.caps.iter().any(|(_, s, _)| *s == usize::MAX) {
            fail(
                &mut out,
                "b",
                format!("capture-not-a-substring;{kind}"),
                format!("{} on {:?}: a captured value does not point into the path: {:?}", spec.label(), path, obs.caps),
            );
        } else if real_ranges != m.caps {
            let valid = is_valid_decomposition(pat, spec.prefix, pb, obs.consumed, &real_ranges);
            fail(
                &mut out,
                "b",
                format!("{};{kind}", if valid { "captures-valid-but-not-leftmost-greedy" } else { "captures-are-not-the-matched-substrings" }),
                format!("{} on {:?}: captured {:?}, reference {}", spec.label(), path, obs.caps, ref_json(spec, path, &refs)),
            );
        }
        info.matched = true;
        info.ncaps = m.caps.len();
        info.shape = std::iter::once(m.len).chain(m.caps.iter().map(|&(s, e)| e - s)).collect();
    } else if ref_matched {
        info.matched = true;
    }

    if ref_matched {
        // accessor consistency and the documented behaviour of a rejecting check function
        let mut p = Path::new(path);
        if rd.capture_match_info_fn(&mut p, |_| false) || p.segment_count() != 0 || p.unprocessed().len() != path.len() {
            fail(
                &mut out,
                "b",
                format!("rejecting-check_fn-still-captures;{kind}"),
                format!("{} on {:?}: capture_match_info_fn with a rejecting check function changed the Path or returned true", spec.label(), path),
            );
        }
        if obs.capture && !obs.caps.is_empty() {
            let mut p = Path::new(path);
            rd.capture_match_info(&mut p);
            for (i, (n, _, v)) in obs.caps.iter().enumerate() {
                let first_with_name = obs.caps.iter().find(|c| &c.0 == n).map(|c| c.2.as_str());
                if p.get(n) != first_with_name || &p[i] != v.as_str() || p.query(n) != first_with_name.unwrap_or("") {
                    fail(
                        &mut out,
                        "b",
                        format!("accessors-disagree;{kind}"),
                        format!("{} on {:?}: Path::get/index/query disagree with Path::iter for {:?}", spec.label(), path, n),
                    );
                    break;
                }
            }
        }
    }
    out
}

/// Clause b for nested matching (a scope prefix followed by an inner resource on the same `Path`):
/// exercises `Path::skip` / `Path::add` offset arithmetic.
pub fn check_two_stage(s1: &Spec, rd1: &ResourceDef, s2: &Spec, rd2: &ResourceDef, path: &str) -> Vec<Fail> {
    match stage1(s1, rd1, path) {
        Some(st) => check_stage2(s1, s2, rd2, path, &st),
        None => Vec::new(),
    }
}

/// The `Path` after the outer (prefix) resource has captured, when the real result equals the
/// reference (anything else is reported by `check_match` on that pair, not here).
pub struct Stage1<'a> {
    pub p: Path<&'a str>,
    pub len: usize,
    pub caps: Vec<(String, usize, String)>,
}

pub fn stage1<'a>(s1: &Spec, rd1: &ResourceDef, path: &'a str) -> Option<Stage1<'a>> {
    let r1 = ref_all(s1, path.as_bytes());
    let m1 = r1.iter().flatten().next()?;
    let mut p = Path::new(path);
    if !rd1.capture_match_info(&mut p) || p.unprocessed() != &path[m1.len..] {
        return None;
    }
    let caps = collect_caps(path, &p);
    Some(Stage1 { p, len: m1.len, caps })
}

pub fn check_stage2(s1: &Spec, s2: &Spec, rd2: &ResourceDef, path: &str, st: &Stage1) -> Vec<Fail> {
    let mut out = Vec::new();
    let kind = format!("nested:{}/{}", s1.kind(), s2.kind());
    let m1 = st;
    let stage1 = &st.caps;
    let mut p = st.p.clone();
    let rest = &path[m1.len..];
    let r2 = ref_all(s2, rest.as_bytes());
    let m2 = r2.iter().position(|r| r.is_some());
    let c2 = rd2.capture_match_info(&mut p);
    if c2 != m2.is_some() {
        fail(
            &mut out,
            "b",
            format!("{}:capture_match_info;{kind}", if m2.is_some() { "rejects-member" } else { "accepts-nonmember" }),
            format!("{} then {} on {:?}: inner resource on remainder {:?} should {}match", s1.label(), s2.label(), path, rest, if m2.is_some() { "" } else { "not " }),
        );
        return out;
    }
    let after = collect_caps(path, &p);
    let consumed = path.len() - p.unprocessed().len();
    match m2 {
        None => {
            if &after != stage1 || consumed != m1.len {
                fail(
                    &mut out,
                    "b",
                    format!("failed-capture-mutated-path;{kind}"),
                    format!("{} then {} on {:?}: failed inner match changed the Path: {:?} consumed {}", s1.label(), s2.label(), path, after, consumed),
                );
            }
        }
        Some(i2) => {
            // accept any pattern of a list whose reference equals the observation, else compare with the first
            let expect_for = |i: usize| {
                let m = r2[i].as_ref().unwrap();
                let mut e = stage1.clone();
                for (&(s, en), n) in m.caps.iter().zip(s2.pats[i].names()) {
                    e.push((n.to_string(), m1.len + s, rest[s..en].to_string()));
                }
                (e, m1.len + m.len)
            };
            let ok = (0..r2.len()).filter(|&i| r2[i].is_some()).any(|i| {
                let (e, c) = expect_for(i);
                e == after && c == consumed
            });
            if !ok {
                let (e, c) = expect_for(i2);
                fail(
                    &mut out,
                    "b",
                    format!("{};{kind}", if c != consumed { "matched-length-differs:capture" } else { "captures-are-not-the-matched-substrings" }),
                    format!("{} then {} on {:?}: got captures {:?} consumed {}; expected {:?} consumed {}", s1.label(), s2.label(), path, after, consumed, e, c),
                );
            }
        }
    }
    out
}

/// Clause d for one resource and one tuple of values (one per dynamic piece of the FIRST pattern).
pub fn check_build(spec: &Spec, rd: &ResourceDef, values: &[&str], info: &mut CaseInfo) -> Vec<Fail> {
    let mut out = Vec::new();
    let kind = spec.kind();
    let pat = &spec.pats[0];
    let names = pat.names();
    let expected = pat.build(values);

    let mut s = String::new();
    let ok = rd.resource_path_from_iter(&mut s, values);
    let mut s2 = String::new();
    let map: HashMap<String, String> = names.iter().zip(values).map(|(n, v)| (n.to_string(), v.to_string())).collect();
    let ok2 = rd.resource_path_from_map(&mut s2, &map);
    if !ok || s != expected {
        fail(&mut out, "d", format!("built-path-wrong:from_iter;{kind}"), format!("{} with {:?}: resource_path_from_iter -> {} {:?}, expected {:?}", spec.label(), values, ok, s, expected));
    }
    if !ok2 || s2 != expected {
        fail(&mut out, "d", format!("built-path-wrong:from_map;{kind}"), format!("{} with {:?}: resource_path_from_map -> {} {:?}, expected {:?}", spec.label(), values, ok2, s2, expected));
    }
    if !values.is_empty() {
        let mut s3 = String::new();
        if rd.resource_path_from_iter(&mut s3, &values[..values.len() - 1]) {
            fail(&mut out, "d", format!("built-path-wrong:missing-value-accepted;{kind}"), format!("{} with one value missing: resource_path_from_iter returned true ({:?})", spec.label(), s3));
        }
    }
    if !out.is_empty() {
        return out;
    }

    // the built path must match (by construction it is in the language of the first pattern)
    let pb = expected.as_bytes();
    if ref_match(pat, spec.prefix, pb).is_none() {
        mc_core::machinery(format!("reference matcher rejects a path built from its own pattern: {} {:?}", spec.label(), values));
    }
    out.extend(check_match(spec, rd, &expected, info));
    let obs = observe(rd, &expected);
    if !(obs.is_match && obs.find_match.is_some() && obs.capture) {
        fail(&mut out, "d", format!("built-path-does-not-match;{kind}"), format!("{} built {:?} from {:?}, but it does not match: {}", spec.label(), expected, values, obs.to_json()));
        return out;
    }
    // "yields those values back": only demanded when the values are the only way to read the path
    // (e.g. `/{x}-{y}` with x="a", y="b-1" is legitimately read back as x="a-b", y="1"); for a list
    // the first pattern is the first match, so its reading is the one reported
    if count_decompositions(pat, spec.prefix, pb, 2) == 1 {
        let got: Vec<&str> = obs.caps.iter().map(|c| c.2.as_str()).collect();
        let got_names: Vec<&str> = obs.caps.iter().map(|c| c.0.as_str()).collect();
        if got != values || got_names != names || obs.consumed != expected.len() {
            fail(&mut out, "d", format!("roundtrip-values-differ;{kind}"), format!("{} built {:?} from {:?}, captured back {:?} (consumed {})", spec.label(), expected, values, obs.caps, obs.consumed));
        }
    }
    out
}

pub fn full_decode_lossy(s: &str) -> String {
    String::from_utf8_lossy(&ref_requote(s.as_bytes(), &[])).into_owned()
}

#[derive(Deserialize, Debug, PartialEq)]
struct S1 {
    p0: String,
}
#[derive(Deserialize, Debug, PartialEq)]
struct S2 {
    p0: String,
    p1: String,
}
#[derive(Deserialize, Debug, PartialEq)]
struct S3 {
    p2: String,
    p0: String,
    p1: String,
}
#[derive(Deserialize, Debug, PartialEq)]
struct N1(String);

/// A struct-like target with whatever fields the path has: asks for a map, reads every key as an
/// identifier (as derived struct visitors do) and every value as a String.
#[derive(Debug, PartialEq)]
pub struct AnyStruct(pub Vec<(String, String)>);

impl<'de> Deserialize<'de> for AnyStruct {
    fn deserialize<D: serde::Deserializer<'de>>(d: D) -> Result<Self, D::Error> {
        struct Ident(String);
        impl<'de> Deserialize<'de> for Ident {
            fn deserialize<D: serde::Deserializer<'de>>(d: D) -> Result<Self, D::Error> {
                struct V;
                impl serde::de::Visitor<'_> for V {
                    type Value = Ident;
                    fn expecting(&self, f: &mut std::fmt::Formatter) -> std::fmt::Result {
                        f.write_str("a field name")
                    }
                    fn visit_str<E: serde::de::Error>(self, s: &str) -> Result<Ident, E> {
                        Ok(Ident(s.to_string()))
                    }
                }
                d.deserialize_identifier(V)
            }
        }
        struct M;
        impl<'de> serde::de::Visitor<'de> for M {
            type Value = AnyStruct;
            fn expecting(&self, f: &mut std::fmt::Formatter) -> std::fmt::Result {
                f.write_str("path parameters")
            }
            fn visit_map<A: serde::de::MapAccess<'de>>(self, mut a: A) -> Result<AnyStruct, A::Error> {
                let mut v = Vec::new();
                while let Some(k) = a.next_key::<Ident>()? {
                    v.push((k.0, a.next_value::<String>()?));
                }
                Ok(AnyStruct(v))
            }
        }
        d.deserialize_struct("AnyStruct", &[], M)
    }
}

/// Clause f for one resource and one path (path may contain percent escapes).
pub fn check_load(spec: &Spec, rd: &ResourceDef, path: &str, info: &mut CaseInfo) -> Vec<Fail> {
    let mut out = Vec::new();
    let kind = spec.kind();
    let refs = ref_all(spec, path.as_bytes());
    let Some(fi) = refs.iter().position(|r| r.is_some()) else { return out };
    let mut p = Path::new(path);
    if !rd.capture_match_info(&mut p) {
        return out; // reported by clause b
    }
    // expected: decode what the *real* capture holds if it equals some matching pattern's reference
    let real = collect_caps(path, &p);
    let real_ranges: Vec<(usize, usize)> = real.iter().map(|(_, s, v)| (*s, s.wrapping_add(v.len()))).collect();
    let chosen = std::iter::once(fi).chain((0..refs.len()).filter(|&i| i != fi)).find(|&i| refs[i].as_ref().is_some_and(|m| m.caps == real_ranges));
    let Some(chosen) = chosen else { return out }; // capture mismatch: clause b reports it
    let m = refs[chosen].as_ref().unwrap();
    let names = spec.pats[chosen].names();
    let expect: Vec<String> = m.caps.iter().map(|&(s, e)| full_decode_lossy(&path[s..e])).collect();
    info.matched = true;
    info.ncaps = expect.len();
    info.shape = std::iter::once(m.len).chain(expect.iter().map(|e| e.len())).collect();

    let mut bad = |target: &str, got: String| {
        fail(&mut out, "f", format!("load-differs:{target};{kind}"), format!("{} on {:?}: Path::load::<{target}>() = {}, expected the decoded captures {:?}", spec.label(), path, got, expect));
    };
    let k = expect.len();
    match p.load::<Vec<String>>() {
        Ok(v) if v == expect => {}
        other => bad("Vec<String>", format!("{other:?}")),
    }
    match p.load::<AnyStruct>() {
        Ok(v) if v.0.iter().map(|(k, v)| (k.as_str(), v)).eq(names.iter().copied().zip(expect.iter())) => {}
        other => bad("struct(any fields)", format!("{other:?}")),
    }
    match k {
        1 => {
            match p.load::<String>() {
                Ok(v) if v == expect[0] => {}
                other => bad("String", format!("{other:?}")),
            }
            match p.load::<(String,)>() {
                Ok(v) if v.0 == expect[0] => {}
                other => bad("(String,)", format!("{other:?}")),
            }
            match p.load::<N1>() {
                Ok(v) if v.0 == expect[0] => {}
                other => bad("newtype(String)", format!("{other:?}")),
            }
            if names == ["p0"] {
                match p.load::<S1>() {
                    Ok(v) if v.p0 == expect[0] => {}
                    other => bad("struct{p0}", format!("{other:?}")),
                }
            }
            // typed target: the decoded text parsed as a number, when it is one
            if let Ok(n) = expect[0].parse::<u32>() {
                match p.load::<u32>() {
                    Ok(v) if v == n => {}
                    other => bad("u32", format!("{other:?}")),
                }
            }
        }
        2 => {
            match p.load::<(String, String)>() {
                Ok(v) if v.0 == expect[0] && v.1 == expect[1] => {}
                other => bad("(String,String)", format!("{other:?}")),
            }
            if names == ["p0", "p1"] {
                match p.load::<S2>() {
                    Ok(v) if v.p0 == expect[0] && v.p1 == expect[1] => {}
                    other => bad("struct{p0,p1}", format!("{other:?}")),
                }
            }
        }
        3 => {
            match p.load::<(String, String, String)>() {
                Ok(v) if v.0 == expect[0] && v.1 == expect[1] && v.2 == expect[2] => {}
                other => bad("(String,String,String)", format!("{other:?}")),
            }
            if names == ["p0", "p1", "p2"] {
                match p.load::<S3>() {
                    Ok(v) if v.p0 == expect[0] && v.p1 == expect[1] && v.p2 == expect[2] => {}
                    other => bad("struct{p2,p0,p1}", format!("{other:?}")),
                }
            }
        }
        4 => match p.load::<(String, String, String, String)>() {
            Ok(v) if [&v.0, &v.1, &v.2, &v.3].into_iter().eq(expect.iter()) => {}
            other => bad("(String,String,String,String)", format!("{other:?}")),
        },
        _ => {}
    }
    out
}

/// Clause f through `Path<Url>` (what actix-web routes on): the Url is requoted first, captures are
/// substrings of the requoted path, and `load` fully decodes them. Returns None when `http::Uri`
/// rejects the path.
pub fn check_load_url(spec: &Spec, rd: &ResourceDef, raw_path: &str) -> Option<Vec<Fail>> {
    let uri = http::Uri::try_from(raw_path).ok()?;
    if uri.path() != raw_path {
        return None;
    }
    let mut out = Vec::new();
    let kind = spec.kind();
    let requoted = String::from_utf8_lossy(&ref_requote(raw_path.as_bytes(), b"%/+")).into_owned();
    let refs = ref_all(spec, requoted.as_bytes());
    let mut p = Path::new(Url::new(uri));
    let matched = rd.capture_match_info(&mut p);
    if matched != refs.iter().any(|r| r.is_some()) {
        fail(&mut out, "f", format!("url-path-match-differs;{kind}"), format!("{} on Url {:?} (requoted {:?}): capture_match_info = {}, reference {}", spec.label(), raw_path, requoted, matched, ref_json(spec, &requoted, &refs)));
        return Some(out);
    }
    if !matched {
        return Some(out);
    }
    let got: Vec<(String, String)> = p.iter().map(|(n, v)| (n.to_string(), v.to_string())).collect();
    let candidates: Vec<Vec<(String, String)>> = refs
        .iter()
        .zip(&spec.pats)
        .filter_map(|(r, pat)| r.as_ref().map(|m| m.caps.iter().zip(pat.names()).map(|(&(s, e), n)| (n.to_string(), requoted[s..e].to_string())).collect()))
        .collect();
    if !candidates.contains(&got) {
        fail(&mut out, "f", format!("url-path-captures-differ;{kind}"), format!("{} on Url {:?} (requoted {:?}): captured {:?}, reference {:?}", spec.label(), raw_path, requoted, got, candidates));
        return Some(out);
    }
    let expect: Vec<String> = got.iter().map(|(_, v)| full_decode_lossy(v)).collect();
    match p.load::<Vec<String>>() {
        Ok(v) if v == expect => {}
        other => fail(&mut out, "f", format!("load-differs:Vec<String>-via-Url;{kind}"), format!("{} on Url {:?}: Path<Url>::load::<Vec<String>>() = {:?}, expected {:?}", spec.label(), raw_path, other, expect)),
    }
    Some(out)
}

fn classify_decode(real: &Option<Vec<u8>>, reference: &[u8], input: &[u8]) -> Option<&'static str> {
    let unchanged = reference == input;
    match real {
        None if unchanged => None,
        None => Some("returned-None-but-a-decodable-escape-exists"),
        Some(_) if unchanged => Some("returned-Some-but-nothing-to-decode"),
        Some(r) if r == reference => None,
        Some(r) if r.len() < reference.len() => Some("decoded-too-much"),
        Some(r) if r.len() > reference.len() => Some("left-a-decodable-escape"),
        Some(_) => Some("wrong-bytes"),
    }
}

/// Clause e: `Quoter::new(_, protected).requote(bytes)`.
pub fn check_quoter(q: &Quoter, protected: &[u8], bytes: &[u8]) -> Vec<Fail> {
    let mut out = Vec::new();
    let reference = ref_requote(bytes, protected);
    let real = q.requote(bytes);
    if let Some(c) = classify_decode(&real, &reference, bytes) {
        fail(
            &mut out,
            "e",
            format!("requote:{c}"),
            format!("Quoter(protected={:?}).requote({:?}) = {:?}, reference {:?}", mc_core::show(protected), mc_core::show(bytes), real.as_deref().map(mc_core::show), mc_core::show(&reference)),
        );
    }
    out
}

/// Clause e through `Url`: the default Url quoter protects `%`, `/`, `+` (url.rs). Returns None when
/// `http::Uri` rejects the bytes (not a case).
pub fn check_url(bytes: &[u8]) -> Option<Vec<Fail>> {
    let mut raw = Vec::with_capacity(bytes.len() + 1);
    raw.push(b'/');
    raw.extend_from_slice(bytes);
    let uri = http::Uri::try_from(raw.as_slice()).ok()?;
    let mut out = Vec::new();
    let input = uri.path().to_string();
    let expect = String::from_utf8_lossy(&ref_requote(input.as_bytes(), b"%/+")).into_owned();
    let url = Url::new(uri.clone());
    let mut url2 = Url::default();
    url2.update(&uri);
    let url3 = Url::new_with_quoter(uri.clone(), &Quoter::new(b"", b""));
    let expect3 = String::from_utf8_lossy(&ref_requote(input.as_bytes(), b"")).into_owned();
    for (api, got, want) in [("Url::new", url.path(), &expect), ("Url::update", url2.path(), &expect), ("Url::new_with_quoter(no protected)", url3.path(), &expect3)] {
        if got != want {
            let c = if got.len() < want.len() { "decoded-too-much" } else if got.len() > want.len() { "left-a-decodable-escape" } else { "wrong-bytes" };
            fail(&mut out, "e", format!("url-path:{c}"), format!("{api}({:?}).path() = {:?}, reference {:?}", input, got, want));
        }
    }
    if url.uri().path() != input {
        fail(&mut out, "e", "url-path:uri-changed".into(), format!("Url::new({:?}).uri().path() = {:?}", input, url.uri().path()));
    }
    Some(out)
}

// ------------------------------------------------------------------------------------------------
// clause g: long paths

/// A long-path case is described by (shape, total length L, shift d); everything else is derived.
#[derive(Clone, Debug)]
pub struct LongCase {
    pub shape: &'static str,
    pub len: usize,
    pub d: usize,
}

pub const LONG_SHAPES: &[&str] = &[
    "one-seg", "last-seg", "first-short-then-long", "prefix-short", "prefix-long", "tail", "static-full", "static-prefix", "nested-static", "nested-dynamic", "list", "digits", "dash", "load-escape",
];

pub enum LongBuilt {
    Single(Spec, String),
    Nested(Spec, Spec, String),
    Load(Spec, String),
}

fn rep(c: char, n: usize) -> String {
    std::iter::repeat(c).take(n).collect()
}

fn named(text: &str) -> Pat {
    Pat::parse(text).unwrap()
}

/// `d` shifts the position of the interesting boundary by a few bytes away from the extreme.
pub fn build_long(c: &LongCase) -> LongBuilt {
    let l = c.len;
    let d = c.d;
    let tailpiece = format!("/{}", rep('b', d + 1)); // "/b", "/bb", ...
    match c.shape {
        "one-seg" => LongBuilt::Single(Spec::single(named("/{p0}"), d % 2 == 1), format!("/{}", rep('a', l - 1))),
        "last-seg" => LongBuilt::Single(Spec::single(named("/{p0}/{p1}"), false), format!("/{}{}", rep('a', l - 1 - tailpiece.len()), tailpiece)),
        "first-short-then-long" => LongBuilt::Single(Spec::single(named("/{p0}/{p1}"), false), format!("{}/{}", tailpiece, rep('a', l - 1 - tailpiece.len()))),
        "prefix-short" => LongBuilt::Single(Spec::single(named("/{p0}"), true), format!("{}/{}", tailpiece, rep('a', l - 1 - tailpiece.len()))),
        "prefix-long" => LongBuilt::Single(Spec::single(named("/{p0}"), true), format!("/{}{}", rep('a', l - 1 - tailpiece.len()), tailpiece)),
        "tail" => LongBuilt::Single(Spec::single(named("/a/{p0}*"), false), format!("/a/{}{}", rep('a', l - 3 - tailpiece.len()), tailpiece)),
        "static-full" => {
            let p = format!("/{}{}", rep('a', l - 1 - tailpiece.len()), tailpiece);
            LongBuilt::Single(Spec::single(Pat { toks: vec![Tok::Lit(p.clone())] }, false), p)
        }
        "static-prefix" => {
            let p = format!("/{}", rep('a', l - 1 - tailpiece.len()));
            LongBuilt::Single(Spec::single(Pat { toks: vec![Tok::Lit(p.clone())] }, true), format!("{p}{tailpiece}"))
        }
        "nested-static" => {
            let p = format!("/{}", rep('a', l - 1 - tailpiece.len()));
            LongBuilt::Nested(Spec::single(Pat { toks: vec![Tok::Lit(p.clone())] }, true), Spec::single(named("/{q0}"), false), format!("{p}{tailpiece}"))
        }
        "nested-dynamic" => LongBuilt::Nested(Spec::single(named("/{p0}"), true), Spec::single(named("/{q0}"), false), format!("/{}{}", rep('a', l - 1 - tailpiece.len()), tailpiece)),
        "list" => LongBuilt::Single(Spec::list(vec![named("/a"), named("/{p0}/{p1}")], d % 2 == 1), format!("/{}{}", rep('a', l - 1 - tailpiece.len()), tailpiece)),
        "digits" => LongBuilt::Single(Spec::single(named("/{p0:\\d+}"), false), format!("/{}", rep('1', l - 1))),
        "dash" => LongBuilt::Single(Spec::single(named("/{p0}-{p1}"), false), format!("/{}-{}", rep('a', l - 2 - (d + 1)), rep('b', d + 1))),
        "load-escape" => LongBuilt::Load(Spec::single(named("/{p0}/{p1}"), false), format!("/{}/{}%61", rep('a', l - 5 - d), rep('b', d))),
        other => mc_core::machinery(format!("unknown long shape {other}")),
    }
}

pub fn check_long(c: &LongCase, info: &mut CaseInfo) -> Vec<Fail> {
    let mut fails = match build_long(c) {
        LongBuilt::Single(spec, path) => {
            assert_eq!(path.len(), c.len);
            let rd = build_def(&spec);
            check_match(&spec, &rd, &path, info)
        }
        LongBuilt::Nested(s1, s2, path) => {
            assert_eq!(path.len(), c.len);
            let (rd1, rd2) = (build_def(&s1), build_def(&s2));
            let mut v = check_match(&s1, &rd1, &path, info);
            v.extend(check_two_stage(&s1, &rd1, &s2, &rd2, &path));
            v
        }
        LongBuilt::Load(spec, path) => {
            assert_eq!(path.len(), c.len);
            let rd = build_def(&spec);
            let mut v = check_match(&spec, &rd, &path, info);
            v.extend(check_load(&spec, &rd, &path, info));
            v
        }
    };
    // long inputs: keep the explanation readable and re-label the clause
    for f in &mut fails {
        f.sig = format!("long:{}", f.sig);
        f.what = format!("[long path shape={} len={} d={}] {}", c.shape, c.len, c.d, mc_core::show_short(f.what.as_bytes(), 300));
        f.clause = "g";
    }
    fails
}
