//! Enumerations for C10 (DESIGN.md §4): the pattern grammar, the path space, value menus and the
//! percent-decoder inputs.

use crate::refm::*;

/// The nine pattern elements of the grammar. Each starts with `/`; dynamic pieces are renamed
/// `p0, p1, …` in pattern order when elements are concatenated (distinct names per pattern).
#[derive(Clone, Copy, Debug, PartialEq, Eq)]
pub enum Elem {
    A,       // /a
    Ab,      // /ab
    Seg,     // /{x}
    ASeg,    // /a{x}
    Dash,    // /{x}-{y}
    AbRe,    // /{x:[ab]+}
    DigitRe, // /{x:\d+}
    AnyRe,   // /{t:.*}
    Tail,    // /{t}*   (only as the last element)
}

pub const ELEMS: [Elem; 9] = [Elem::A, Elem::Ab, Elem::Seg, Elem::ASeg, Elem::Dash, Elem::AbRe, Elem::DigitRe, Elem::AnyRe, Elem::Tail];

pub fn pat_of(elems: &[Elem], name_prefix: &str) -> Pat {
    let mut toks: Vec<Tok> = Vec::new();
    let mut n = 0;
    let lit = |toks: &mut Vec<Tok>, s: &str| {
        if let Some(Tok::Lit(l)) = toks.last_mut() {
            l.push_str(s);
        } else {
            toks.push(Tok::Lit(s.to_string()));
        }
    };
    let mut dynp = |toks: &mut Vec<Tok>, class: Class, tail: bool| {
        toks.push(Tok::Dyn { name: format!("{name_prefix}{n}"), class, tail });
        n += 1;
    };
    for e in elems {
        match e {
            Elem::A => lit(&mut toks, "/a"),
            Elem::Ab => lit(&mut toks, "/ab"),
            Elem::Seg => {
                lit(&mut toks, "/");
                dynp(&mut toks, Class::Seg, false)
            }
            Elem::ASeg => {
                lit(&mut toks, "/a");
                dynp(&mut toks, Class::Seg, false)
            }
            Elem::Dash => {
                lit(&mut toks, "/");
                dynp(&mut toks, Class::Seg, false);
                lit(&mut toks, "-");
                dynp(&mut toks, Class::Seg, false)
            }
            Elem::AbRe => {
                lit(&mut toks, "/");
                dynp(&mut toks, Class::Ab, false)
            }
            Elem::DigitRe => {
                lit(&mut toks, "/");
                dynp(&mut toks, Class::Digit, false)
            }
            Elem::AnyRe => {
                lit(&mut toks, "/");
                dynp(&mut toks, Class::Any, false)
            }
            Elem::Tail => {
                lit(&mut toks, "/");
                dynp(&mut toks, Class::Any, true)
            }
        }
    }
    Pat { toks }
}

/// All element sequences of length 1..=max_len, the tail element only in last position.
pub fn elem_seqs(max_len: usize) -> Vec<Vec<Elem>> {
    let mut out = Vec::new();
    let mut cur: Vec<Vec<Elem>> = vec![vec![]];
    for _ in 0..max_len {
        let mut next = Vec::new();
        for s in &cur {
            if s.last() == Some(&Elem::Tail) {
                continue;
            }
            for e in ELEMS {
                let mut t = s.clone();
                t.push(e);
                next.push(t);
            }
        }
        out.extend(next.iter().cloned());
        cur = next;
    }
    out
}

/// Trailing-slash / empty-pattern edge cases (documented in the ResourceDef docs).
pub fn edge_pats(name_prefix: &str) -> Vec<Pat> {
    let d = |i: usize, class| Tok::Dyn { name: format!("{name_prefix}{i}"), class, tail: false };
    vec![
        Pat { toks: vec![] },
        Pat { toks: vec![Tok::Lit("/".into())] },
        Pat { toks: vec![Tok::Lit("/a/".into())] },
        Pat { toks: vec![Tok::Lit("//".into())] },
        Pat { toks: vec![Tok::Lit("/".into()), d(0, Class::Seg), Tok::Lit("/".into())] },
        Pat { toks: vec![Tok::Lit("/a/".into()), d(0, Class::Seg), Tok::Lit("/".into())] },
        // literal text containing regex meta characters ('-' and '.' are escaped when the matcher
        // is built; the generator must still emit them verbatim), before and after the last
        // dynamic piece and in a purely static pattern
        Pat { toks: vec![Tok::Lit("/".into()), d(0, Class::Seg), Tok::Lit("-a".into())] },
        Pat { toks: vec![Tok::Lit("/-".into()), d(0, Class::Seg), Tok::Lit("-".into())] },
        Pat { toks: vec![Tok::Lit("/".into()), d(0, Class::Seg), Tok::Lit(".1".into())] },
        Pat { toks: vec![Tok::Lit("/a.b".into())] },
        Pat { toks: vec![Tok::Lit("/a-b".into())] },
    ]
}

pub fn pats(max_len: usize, name_prefix: &str) -> Vec<Pat> {
    let mut v = edge_pats(name_prefix);
    v.extend(elem_seqs(max_len).iter().map(|s| pat_of(s, name_prefix)));
    v
}

pub const PATH_ALPHABET: [u8; 5] = [b'/', b'a', b'b', b'1', b'-'];

/// All strings of length ≤ max_len over the path alphabet, shortest first.
pub fn all_paths(max_len: usize) -> Vec<String> {
    all_strings(&PATH_ALPHABET, max_len).into_iter().map(|b| String::from_utf8(b).unwrap()).collect()
}

pub fn all_strings(alphabet: &[u8], max_len: usize) -> Vec<Vec<u8>> {
    let mut out: Vec<Vec<u8>> = vec![vec![]];
    let mut start = 0;
    for _ in 0..max_len {
        let end = out.len();
        for i in start..end {
            for &c in alphabet {
                let mut s = out[i].clone();
                s.push(c);
                out.push(s);
            }
        }
        start = end;
    }
    out
}

/// Value menu for clause d: members of each piece language.
pub fn build_menu(c: Class) -> &'static [&'static str] {
    match c {
        Class::Seg => &["a", "b1", "a-b", "-"],
        Class::Ab => &["a", "ab", "bba"],
        Class::Digit => &["1", "11"],
        Class::Any => &["", "a", "a/b", "/"],
    }
}

/// Value menu for clause f: percent escapes (valid, invalid, truncated, protected in the Url quoter,
/// producing invalid UTF-8, producing a two-byte UTF-8 character) inside dynamic segments.
pub fn load_menu(c: Class) -> &'static [&'static str] {
    match c {
        Class::Seg => &["a", "%61", "a%2Fb", "%2", "%25", "%zz", "1%31", "%80", "%C3%A9", "%2561"],
        Class::Ab => &["ab"],
        Class::Digit => &["1", "12"],
        Class::Any => &["", "a/%62", "%2F"],
    }
}

/// Cartesian product of menus, first index slowest.
pub fn tuples(menus: &[&'static [&'static str]]) -> Vec<Vec<&'static str>> {
    let mut out: Vec<Vec<&'static str>> = vec![vec![]];
    for m in menus {
        let mut next = Vec::with_capacity(out.len() * m.len());
        for t in &out {
            for v in m.iter() {
                let mut u = t.clone();
                u.push(*v);
                next.push(u);
            }
        }
        out = next;
    }
    out
}

/// Percent-decoder alphabet: the DESIGN alphabet plus 'B' so that `%2B` ('+', protected in the Url
/// quoter) is expressible.
pub const DECODER_ALPHABET: [u8; 10] = [b'%', b'2', b'5', b'F', b'f', b'a', b'/', b'+', 0x80, b'B'];

/// The protected sets exercised for `Quoter` (the first is the Url default from url.rs).
pub const PROTECTED_SETS: [&[u8]; 5] = [b"%/+", b"", b"+", b"/", b"%"];

/// Second decoder enumeration: every pair of characters from the hex digits and their ASCII
/// neighbours as `%XY`, alone and in three contexts.
pub fn escape_pair_inputs() -> Vec<Vec<u8>> {
    let mut chars: Vec<u8> = Vec::new();
    chars.extend(b'0'..=b'9');
    chars.extend(b'a'..=b'f');
    chars.extend(b'A'..=b'F');
    chars.extend([b'/', b':', b'@', b'G', b'`', b'g', b'%', 0x80]);
    let mut out = Vec::new();
    for &x in &chars {
        for &y in &chars {
            out.push(vec![b'%', x, y]);
            out.push(vec![b'a', b'%', x, y, b'b']);
            out.push(vec![b'%', x, y, b'%', x, y]);
            out.push(vec![b'%', b'%', x, y, x]);
        }
    }
    out
}

/// Number of strings of length ≤ max_len over an alphabet of k symbols.
pub fn shortlex_count(k: usize, max_len: usize) -> usize {
    (0..=max_len).map(|l| k.pow(l as u32)).sum()
}

/// The idx-th string in shortlex order (same order as `all_strings`), without materialising the set.
pub fn shortlex_nth(alphabet: &[u8], mut idx: usize) -> Vec<u8> {
    let k = alphabet.len();
    let mut len = 0;
    let mut block = 1;
    while idx >= block {
        idx -= block;
        block *= k;
        len += 1;
    }
    let mut out = vec![0u8; len];
    for i in (0..len).rev() {
        out[i] = alphabet[idx % k];
        idx /= k;
    }
    out
}
