//! routex — decides property C10 (actix-router pattern matching, captures, path building and partial
//! percent-decoding) by bounded-exhaustive enumeration of patterns × paths against an independent
//! reference matcher. See DESIGN.md §4 C10 and ENGINE_GUIDE.md.

mod checks;
mod gen;
mod refm;

use checks::*;
use mc_core::report::{read_replay, Evidence, Reporter, Violation};
use refm::*;
use serde_json::{json, Value};
use std::collections::{BTreeMap, HashSet};
use std::sync::atomic::{AtomicBool, AtomicUsize, Ordering};
use std::sync::Mutex;
use std::time::{Duration, Instant};

const PROP: &str = "C10";

/// Per-thread accumulator; merged deterministically (sums, set unions, minima under a total order).
#[derive(Default)]
struct Local {
    evals: BTreeMap<&'static str, u64>,
    matched: u64,
    matched_with_caps: u64,
    list_nonfirst: u64,
    url_rejected_by_http: u64,
    violating_cases: u64,
    shapes: HashSet<u64>,
    /// (clause, signature) -> (weight, replay text, violation): simplest kept
    viol: BTreeMap<(String, String), (u64, String, Violation)>,
    /// smallest-hash nontrivial cases, as samples
    samples: Vec<(u64, Value)>,
}

impl Local {
    fn eval(&mut self, phase: &'static str) {
        *self.evals.entry(phase).or_insert(0) += 1;
    }
    fn record(&mut self, spec: &Spec, label_hash: u64, subject: &str, info: &CaseInfo) {
        if info.list_nonfirst {
            self.list_nonfirst += 1;
        }
        if info.matched {
            self.matched += 1;
            if info.ncaps > 0 {
                self.matched_with_caps += 1;
                let mut h = label_hash;
                for x in &info.shape {
                    h = (h ^ (*x as u64 + 1)).wrapping_mul(0x100000001b3);
                }
                if self.shapes.insert(h) {
                    let sh = mc_core::fnv_str(subject) ^ h;
                    if self.samples.len() < 6 || sh < self.samples.last().unwrap().0 {
                        self.samples.push((sh, json!({"resource": spec.label(), "subject": mc_core::show_short(subject.as_bytes(), 60), "matched_len": info.shape.first(), "capture_lens": &info.shape[1.min(info.shape.len())..]})));
                        self.samples.sort_by(|a, b| a.0.cmp(&b.0).then_with(|| a.1.to_string().cmp(&b.1.to_string())));
                        self.samples.truncate(6);
                    }
                }
            }
        }
    }
    fn add(&mut self, fails: Vec<Fail>, weight: u64, replay: impl Fn() -> Value) {
        if fails.is_empty() {
            return;
        }
        self.violating_cases += 1;
        let rp = replay();
        let rtext = rp.to_string();
        for f in fails {
            let key = (f.clause.to_string(), f.sig.clone());
            let better = match self.viol.get(&key) {
                None => true,
                Some((w, t, _)) => (weight, &rtext) < (*w, t),
            };
            if better {
                let v = Violation { property: PROP.into(), clause: f.clause.into(), signature: f.sig, what: f.what, replay: rp.clone(), weight };
                self.viol.insert(key, (weight, rtext.clone(), v));
            }
        }
    }
    fn merge(&mut self, o: Local) {
        for (k, v) in o.evals {
            *self.evals.entry(k).or_insert(0) += v;
        }
        self.matched += o.matched;
        self.matched_with_caps += o.matched_with_caps;
        self.list_nonfirst += o.list_nonfirst;
        self.url_rejected_by_http += o.url_rejected_by_http;
        self.violating_cases += o.violating_cases;
        self.shapes.extend(o.shapes);
        for (k, v) in o.viol {
            let better = match self.viol.get(&k) {
                None => true,
                Some((w, t, _)) => (v.0, &v.1) < (*w, t),
            };
            if better {
                self.viol.insert(k, v);
            }
        }
        self.samples.extend(o.samples);
        self.samples.sort_by(|a, b| a.0.cmp(&b.0).then_with(|| a.1.to_string().cmp(&b.1.to_string())));
        self.samples.dedup_by(|a, b| a.0 == b.0 && a.1 == b.1);
        self.samples.truncate(6);
    }
}

struct Runner {
    threads: usize,
    seed: u64,
    deadline: Instant,
    capped: AtomicBool,
    total: Mutex<Local>,
    /// phases that ran to completion, with their unit counts
    completed: Mutex<Vec<String>>,
}

impl Runner {
    /// Run `n` independent work units on the worker threads. `VERIF_SEED` only rotates the order.
    fn run(&self, phase: &str, n: usize, f: impl Fn(usize, &mut Local) + Sync) {
        if n == 0 {
            return;
        }
        let t0 = Instant::now();
        let next = AtomicUsize::new(0);
        let done = AtomicUsize::new(0);
        let rot = (self.seed as usize) % n;
        let machinery: Mutex<Option<String>> = Mutex::new(None);
        std::thread::scope(|s| {
            for _ in 0..self.threads.min(n) {
                s.spawn(|| {
                    let mut local = Local::default();
                    loop {
                        if Instant::now() > self.deadline {
                            self.capped.store(true, Ordering::SeqCst);
                            break;
                        }
                        let k = next.fetch_add(1, Ordering::SeqCst);
                        if k >= n {
                            break;
                        }
                        let u = (k + rot) % n;
                        let r = std::panic::catch_unwind(std::panic::AssertUnwindSafe(|| f(u, &mut local)));
                        if let Err(p) = r {
                            let msg = p.downcast_ref::<mc_core::MachineryError>().map(|m| m.0.clone()).unwrap_or_else(|| "harness panic outside a guarded subject call".into());
                            *machinery.lock().unwrap() = Some(format!("phase {phase} unit {u}: {msg}"));
                            break;
                        }
                        done.fetch_add(1, Ordering::SeqCst);
                    }
                    self.total.lock().unwrap().merge(local);
                });
            }
        });
        if let Some(m) = machinery.into_inner().unwrap() {
            eprintln!("MACHINERY: {m}");
            std::process::exit(2);
        }
        let d = done.load(Ordering::SeqCst);
        self.completed.lock().unwrap().push(format!("{phase}: {d}/{n} units{} in {:.1}s", if d == n { "" } else { " (CAPPED)" }, t0.elapsed().as_secs_f64()));
    }
}

fn weight(spec_text_len: usize, subject_len: usize) -> u64 {
    (subject_len as u64) * 10_000 + spec_text_len as u64
}

fn spec_text_len(s: &Spec) -> usize {
    s.texts().iter().map(|t| t.len() + 1).sum::<usize>() + s.list as usize * 50
}

fn match_replay(spec: &Spec, path: &str) -> Value {
    let mut v = spec.to_json();
    v["kind"] = json!("match");
    v["path"] = json!(path);
    v
}

fn construct(spec: &Spec, loc: &mut Local) -> Option<actix_router::ResourceDef> {
    match std::panic::catch_unwind(|| build_def(spec)) {
        Ok(rd) => {
            let mut fails = Vec::new();
            let texts = spec.texts();
            if rd.pattern() != Some(texts[0].as_str()) || rd.is_prefix() != spec.prefix || rd.pattern_iter().map(str::to_string).collect::<Vec<_>>() != texts {
                fails.push(Fail { clause: "b", sig: format!("accessors:pattern/is_prefix;{}", spec.kind()), what: format!("{}: pattern()={:?} is_prefix()={}", spec.label(), rd.pattern(), rd.is_prefix()) });
            }
            loc.add(fails, weight(spec_text_len(spec), 0), || match_replay(spec, ""));
            Some(rd)
        }
        Err(_) => {
            let f = Fail { clause: "b", sig: format!("construct-panics;{}", spec.kind()), what: format!("constructing {} panicked although the pattern is well-formed", spec.label()) };
            loc.add(vec![f], weight(spec_text_len(spec), 0), || match_replay(spec, ""));
            None
        }
    }
}

/// All (full, prefix) single-pattern specs for element sequences up to `n`.
fn single_specs(n: usize, name_prefix: &str) -> Vec<Spec> {
    let mut v = Vec::new();
    for p in gen::pats(n, name_prefix) {
        v.push(Spec::single(p.clone(), false));
        v.push(Spec::single(p, true));
    }
    v
}

/// Ordered pairs (including equal) of patterns, full and prefix.
fn list_specs(n: usize) -> Vec<Spec> {
    let ps = gen::pats(n, "p");
    let mut v = Vec::new();
    for a in &ps {
        for b in &ps {
            v.push(Spec::list(vec![a.clone(), b.clone()], false));
            v.push(Spec::list(vec![a.clone(), b.clone()], true));
        }
    }
    v
}

/// Like `list_specs` with another parameter-name prefix (for inner resources of the nested phase).
fn list_specs_named(n: usize, name_prefix: &str) -> Vec<Spec> {
    let ps = gen::pats(n, name_prefix);
    let mut v = Vec::new();
    for a in &ps {
        for b in &ps {
            v.push(Spec::list(vec![a.clone(), b.clone()], false));
            v.push(Spec::list(vec![a.clone(), b.clone()], true));
        }
    }
    v
}

/// Three-pattern lists with a repeated member: [a, a, b] and [a, b, b] for every ordered pair of
/// distinct patterns (a repeated pattern must not disturb which list member supplies the captures).
fn list3_specs(n: usize) -> Vec<Spec> {
    let ps = gen::pats(n, "p");
    let mut v = Vec::new();
    for (i, a) in ps.iter().enumerate() {
        for (j, b) in ps.iter().enumerate() {
            if i == j {
                continue;
            }
            for prefix in [false, true] {
                v.push(Spec::list(vec![a.clone(), a.clone(), b.clone()], prefix));
                v.push(Spec::list(vec![a.clone(), b.clone(), b.clone()], prefix));
            }
        }
    }
    v
}

fn phase_match(r: &Runner, name: &'static str, specs: &[Spec], paths: &[String]) {
    r.run(name, specs.len(), |u, loc| {
        let spec = &specs[u];
        let Some(rd) = construct(spec, loc) else { return };
        let kind = spec.kind();
        let lh = mc_core::fnv_str(&spec.label());
        let tl = spec_text_len(spec);
        for path in paths {
            let mut info = CaseInfo::default();
            let fails = guarded("b", &kind, || check_match(spec, &rd, path, &mut info));
            loc.eval(name);
            loc.record(spec, lh, path, &info);
            loc.add(fails, weight(tl, path.len()), || match_replay(spec, path));
        }
    });
}

fn phase_nested(r: &Runner, outer: &[Spec], inner: &[Spec], paths: &[String]) {
    // per outer spec, the paths on which it matches (by the reference) — others have no second stage
    let outer_hits: Vec<Vec<usize>> = outer.iter().map(|s| (0..paths.len()).filter(|&i| ref_all(s, paths[i].as_bytes()).iter().any(|m| m.is_some())).collect()).collect();
    // outer definitions are built once and shared (ResourceDef is Sync); a panic here is reported by phase 1
    let mut scratch = Local::default();
    let outer_defs: Vec<Option<actix_router::ResourceDef>> = outer.iter().map(|s| construct(s, &mut scratch)).collect();
    // unit = (outer resource, chunk of inner resources); the outer capture is done once per path
    let chunk = 24;
    let chunks = inner.len().div_ceil(chunk);
    r.run("nested", outer.len() * chunks, |u, loc| {
        let (oi, ci) = (u / chunks, u % chunks);
        let s1 = &outer[oi];
        let Some(rd1) = &outer_defs[oi] else { return };
        let inner = &inner[ci * chunk..((ci + 1) * chunk).min(inner.len())];
        let defs: Vec<Option<actix_router::ResourceDef>> = inner.iter().map(|s| construct(s, loc)).collect();
        let kinds: Vec<String> = inner.iter().map(|s2| format!("nested:{}/{}", s1.kind(), s2.kind())).collect();
        for &pi in &outer_hits[oi] {
            let path = &paths[pi];
            let Ok(Some(st)) = std::panic::catch_unwind(|| stage1(s1, rd1, path)) else { continue };
            for (i, s2) in inner.iter().enumerate() {
                let Some(rd2) = &defs[i] else { continue };
                let fails = guarded("b", &kinds[i], || check_stage2(s1, s2, rd2, path, &st));
                loc.eval("nested");
                let tl = spec_text_len(s1) + spec_text_len(s2) + 100;
                loc.add(fails, weight(tl, path.len()), || json!({"kind": "nested", "outer": s1.to_json(), "inner": s2.to_json(), "path": path}));
            }
        }
    });
}

fn phase_build(r: &Runner, specs: &[Spec]) {
    r.run("build", specs.len(), |u, loc| {
        let spec = &specs[u];
        let Some(rd) = construct(spec, loc) else { return };
        let kind = spec.kind();
        let lh = mc_core::fnv_str(&spec.label());
        let menus: Vec<&'static [&'static str]> = spec.pats[0].classes().into_iter().map(gen::build_menu).collect();
        for values in gen::tuples(&menus) {
            let mut info = CaseInfo::default();
            let fails = guarded("d", &kind, || check_build(spec, &rd, &values, &mut info));
            loc.eval("build");
            let built = spec.pats[0].build(&values);
            loc.record(spec, lh, &built, &info);
            loc.add(fails, weight(spec_text_len(spec), built.len()), || {
                let mut v = spec.to_json();
                v["kind"] = json!("build");
                v["values"] = json!(values);
                v
            });
        }
    });
}

fn phase_load(r: &Runner, specs: &[Spec]) {
    r.run("load", specs.len(), |u, loc| {
        let spec = &specs[u];
        let Some(rd) = construct(spec, loc) else { return };
        let kind = spec.kind();
        let lh = mc_core::fnv_str(&spec.label()) ^ 0x10ad;
        // values are inserted into the FIRST pattern; for a list whichever pattern matches is used
        let menus: Vec<&'static [&'static str]> = spec.pats[0].classes().into_iter().map(gen::load_menu).collect();
        for values in gen::tuples(&menus) {
            let path = spec.pats[0].build(&values);
            let mut info = CaseInfo::default();
            let mut fails = guarded("f", &kind, || check_load(spec, &rd, &path, &mut info));
            loc.eval("load");
            let mut via_url = false;
            fails.extend(guarded("f", &kind, || match check_load_url(spec, &rd, &path) {
                Some(f) => {
                    via_url = true;
                    f
                }
                None => vec![],
            }));
            if via_url {
                loc.eval("load-via-url");
            }
            loc.record(spec, lh, &path, &info);
            loc.add(fails, weight(spec_text_len(spec), path.len()), || {
                let mut v = spec.to_json();
                v["kind"] = json!("load");
                v["path"] = json!(path);
                v
            });
        }
    });
}

/// Inputs: all strings of length ≤ dec_len over the decoder alphabet (generated by index), then `extra`.
fn phase_decoder(r: &Runner, dec_len: usize, extra: &[Vec<u8>]) {
    let chunk = 8192;
    let n_enum = gen::shortlex_count(gen::DECODER_ALPHABET.len(), dec_len);
    let n = n_enum + extra.len();
    let units = n.div_ceil(chunk);
    r.run("decoder", units, |u, loc| {
        let quoters: Vec<(actix_router::Quoter, &[u8])> = gen::PROTECTED_SETS.iter().map(|p| (actix_router::Quoter::new(b"", p), *p)).collect();
        for idx in u * chunk..((u + 1) * chunk).min(n) {
            let owned;
            let bytes: &Vec<u8> = if idx < n_enum {
                owned = gen::shortlex_nth(&gen::DECODER_ALPHABET, idx);
                &owned
            } else {
                &extra[idx - n_enum]
            };
            for (q, prot) in &quoters {
                let fails = guarded("e", "quoter", || check_quoter(q, prot, bytes));
                loc.eval("decoder-quoter");
                loc.add(fails, weight(prot.len(), bytes.len()), || json!({"kind": "quoter", "protected": prot, "bytes": bytes}));
            }
            let mut skipped = false;
            let fails = guarded("e", "url", || match check_url(bytes) {
                Some(f) => f,
                None => {
                    skipped = true;
                    vec![]
                }
            });
            if skipped {
                loc.url_rejected_by_http += 1;
            } else {
                loc.eval("decoder-url");
            }
            loc.add(fails, weight(0, bytes.len()), || json!({"kind": "url", "bytes": bytes}));
        }
    });
}

fn long_cases() -> Vec<LongCase> {
    let mut v = Vec::new();
    // lengths around the 8-, 15- and 16-bit limits of an offset; 65 535 is the largest path whose
    // offsets fit PathItem::Segment(u16, u16)
    for len in [255usize, 256, 257, 32767, 32768, 65533, 65534, 65535] {
        for shape in LONG_SHAPES {
            for d in 0..4 {
                v.push(LongCase { shape, len, d });
            }
        }
    }
    v
}

fn phase_long(r: &Runner) {
    let cases = long_cases();
    r.run("long", cases.len(), |u, loc| {
        let c = &cases[u];
        let mut info = CaseInfo::default();
        let fails = guarded("g", "long", || check_long(c, &mut info));
        // guarded() labels a panic with clause g already; check_long relabels ordinary failures
        loc.eval("long");
        let spec = Spec::single(Pat { toks: vec![Tok::Lit(format!("<long:{}>", c.shape))] }, false);
        loc.record(&spec, mc_core::fnv_str(c.shape) ^ c.len as u64, &format!("{}:{}:{}", c.shape, c.len, c.d), &info);
        loc.add(fails, (c.len as u64) * 10_000 + c.d as u64, || json!({"kind": "long", "shape": c.shape, "len": c.len, "d": c.d}));
    });
}

// ------------------------------------------------------------------------------------------------

fn bytes_of(v: &Value) -> Vec<u8> {
    match v {
        Value::String(s) => s.as_bytes().to_vec(),
        Value::Array(a) => a.iter().map(|x| x.as_u64().unwrap_or(0) as u8).collect(),
        _ => vec![],
    }
}

fn replay_main(file: &str) -> i32 {
    let doc = read_replay(file);
    let rp = if doc.get("replay").is_some() { doc["replay"].clone() } else { doc.clone() };
    let kind = rp["kind"].as_str().unwrap_or("match").to_string();
    let bad = |e: String| -> ! {
        eprintln!("MACHINERY: {e}");
        std::process::exit(2)
    };
    let mut info = CaseInfo::default();
    let fails: Vec<Fail> = match kind.as_str() {
        "match" | "build" | "load" => {
            let spec = Spec::from_json(&rp).unwrap_or_else(|e| bad(e));
            println!("resource: {}", spec.label());
            let rd = match std::panic::catch_unwind(|| build_def(&spec)) {
                Ok(rd) => rd,
                Err(_) => {
                    println!("constructing the resource panicked");
                    return 1;
                }
            };
            let fails = if kind == "build" {
                let values: Vec<String> = rp["values"].as_array().map(|a| a.iter().map(|x| x.as_str().unwrap_or("").to_string()).collect()).unwrap_or_default();
                println!("values: {values:?}");
                let vr: Vec<&str> = values.iter().map(String::as_str).collect();
                let mut s = String::new();
                let ok = std::panic::catch_unwind(std::panic::AssertUnwindSafe(|| rd.resource_path_from_iter(&mut s, &vr)));
                println!("real      resource_path_from_iter -> {ok:?} {s:?}");
                println!("reference built path              -> {:?}", spec.pats[0].build(&vr));
                let f = guarded("d", &spec.kind(), || check_build(&spec, &rd, &vr, &mut info));
                print_match(&spec, &rd, &spec.pats[0].build(&vr));
                f
            } else {
                let path = rp["path"].as_str().unwrap_or("").to_string();
                print_match(&spec, &rd, &path);
                if kind == "load" {
                    let mut p = actix_router::Path::new(path.as_str());
                    if rd.capture_match_info(&mut p) {
                        println!("real      load::<Vec<String>>() -> {:?}", p.load::<Vec<String>>());
                        println!("real      load::<struct(any fields)>() -> {:?}", p.load::<AnyStruct>());
                    }
                    let mut f = guarded("f", &spec.kind(), || check_load(&spec, &rd, &path, &mut info));
                    f.extend(guarded("f", &spec.kind(), || check_load_url(&spec, &rd, &path).unwrap_or_default()));
                    f
                } else {
                    guarded("b", &spec.kind(), || check_match(&spec, &rd, &path, &mut info))
                }
            };
            fails
        }
        "nested" => {
            let s1 = Spec::from_json(&rp["outer"]).unwrap_or_else(|e| bad(e));
            let s2 = Spec::from_json(&rp["inner"]).unwrap_or_else(|e| bad(e));
            let path = rp["path"].as_str().unwrap_or("").to_string();
            println!("outer: {}   inner: {}   path: {:?}", s1.label(), s2.label(), path);
            let (rd1, rd2) = (build_def(&s1), build_def(&s2));
            let r = std::panic::catch_unwind(|| {
                let mut p = actix_router::Path::new(path.as_str());
                let a = rd1.capture_match_info(&mut p);
                let b = rd2.capture_match_info(&mut p);
                format!("outer={a} inner={b} captures={:?} unprocessed={:?}", p.iter().collect::<Vec<_>>(), p.unprocessed())
            });
            println!("real      {r:?}");
            let r1 = ref_all(&s1, path.as_bytes());
            println!("reference outer {}", ref_json(&s1, &path, &r1));
            if let Some(m1) = r1.iter().flatten().next() {
                let rest = &path[m1.len..];
                println!("reference inner on {:?}: {}", rest, ref_json(&s2, rest, &ref_all(&s2, rest.as_bytes())));
            }
            guarded("b", "nested", || check_two_stage(&s1, &rd1, &s2, &rd2, &path))
        }
        "quoter" => {
            let prot = bytes_of(&rp["protected"]);
            let bytes = bytes_of(&rp["bytes"]);
            let q = actix_router::Quoter::new(b"", &prot);
            let real = std::panic::catch_unwind(std::panic::AssertUnwindSafe(|| q.requote(&bytes)));
            println!("input     {:?} protected {:?}", mc_core::show(&bytes), mc_core::show(&prot));
            println!("real      {:?}", real.map(|o| o.map(|v| mc_core::show(&v))));
            println!("reference {:?} (None is expected iff equal to the input)", mc_core::show(&ref_requote(&bytes, &prot)));
            guarded("e", "quoter", || check_quoter(&q, &prot, &bytes))
        }
        "url" => {
            let bytes = bytes_of(&rp["bytes"]);
            println!("input     /{:?}", mc_core::show(&bytes));
            let mut raw = vec![b'/'];
            raw.extend_from_slice(&bytes);
            match http::Uri::try_from(raw.as_slice()) {
                Ok(uri) => {
                    let real = std::panic::catch_unwind(|| actix_router::Url::new(uri.clone()).path().to_string());
                    println!("real      Url::new(..).path() = {real:?}");
                    println!("reference {:?}", String::from_utf8_lossy(&ref_requote(uri.path().as_bytes(), b"%/+")));
                }
                Err(e) => println!("http::Uri rejects the input: {e}"),
            }
            guarded("e", "url", || check_url(&bytes).unwrap_or_default())
        }
        "long" => {
            let shape = LONG_SHAPES.iter().find(|s| Some(**s) == rp["shape"].as_str()).copied().unwrap_or_else(|| bad("replay: unknown long shape".into()));
            let c = LongCase { shape, len: rp["len"].as_u64().unwrap_or(0) as usize, d: rp["d"].as_u64().unwrap_or(0) as usize };
            match build_long(&c) {
                LongBuilt::Single(s, p) | LongBuilt::Load(s, p) => {
                    println!("resource: {}   path: {} bytes: {:?}", mc_core::show_short(s.label().as_bytes(), 80), p.len(), mc_core::show_short(p.as_bytes(), 24));
                    if let Ok(rd) = std::panic::catch_unwind(|| build_def(&s)) {
                        let o = std::panic::catch_unwind(|| observe(&rd, &p));
                        match o {
                            Ok(o) => println!("real      is_match={} find_match={:?} capture={} consumed={} captures={:?}", o.is_match, o.find_match, o.capture, o.consumed, o.caps.iter().map(|(n, s, v)| (n.clone(), *s, v.len())).collect::<Vec<_>>()),
                            Err(_) => println!("real      panicked"),
                        }
                        let rf = ref_all(&s, p.as_bytes());
                        println!("reference {:?}", rf.iter().map(|m| m.as_ref().map(|m| (m.len, m.caps.clone()))).collect::<Vec<_>>());
                    }
                }
                LongBuilt::Nested(s1, s2, p) => println!("outer: {}  inner: {}  path: {} bytes", mc_core::show_short(s1.label().as_bytes(), 80), s2.label(), p.len()),
            }
            guarded("g", "long", || check_long(&c, &mut info))
        }
        other => bad(format!("replay: unknown kind {other:?}")),
    };
    if fails.is_empty() {
        println!("REPLAY: no clause fails on this case");
        0
    } else {
        for f in &fails {
            println!("REPLAY: clause={} signature={}", f.clause, f.sig);
            println!("  {}", f.what);
        }
        1
    }
}

fn print_match(spec: &Spec, rd: &actix_router::ResourceDef, path: &str) {
    println!("path: {path:?}");
    match std::panic::catch_unwind(|| observe(rd, path)) {
        Ok(o) => println!("real      {}", o.to_json()),
        Err(_) => println!("real      panicked"),
    }
    println!("reference {} (one entry per pattern; null = no match)", ref_json(spec, path, &ref_all(spec, path.as_bytes())));
}

fn main() {
    let args = mc_core::cli::parse();
    if args.property != PROP {
        eprintln!("MACHINERY: routex serves C10 only (got {})", args.property);
        std::process::exit(2);
    }
    install_quiet_panic_hook();
    if let Some(f) = &args.replay {
        std::process::exit(replay_main(f));
    }
    let thorough = args.tier == "thorough";
    let start = Instant::now();
    let wall_cap = args.wall_s.unwrap_or(if thorough { 25 * 60 } else { 10 * 60 });
    let seed: u64 = std::env::var("VERIF_SEED").ok().and_then(|s| s.parse().ok()).unwrap_or(0);
    let r = Runner {
        threads: mc_core::cli::threads(),
        seed,
        deadline: start + Duration::from_secs(wall_cap),
        capped: AtomicBool::new(false),
        total: Mutex::new(Local::default()),
        completed: Mutex::new(Vec::new()),
    };

    // quick: the DESIGN bounds (paths ≤ 6, decoder ≤ 5). thorough goes one beyond the DESIGN's
    // thorough bounds (paths ≤ 8 instead of 7, decoder ≤ 7 instead of 6) because it fits the wall cap.
    let path_len = if thorough { 8 } else { 6 };
    let dec_len = if thorough { 7 } else { 5 };
    let list2_len = if thorough { 7 } else { 4 };
    let nested_len = if thorough { 7 } else { 6 };
    let paths = gen::all_paths(path_len);
    let short_paths: Vec<String> = paths.iter().filter(|p| p.len() <= list2_len).cloned().collect();
    let nested_paths: Vec<String> = paths.iter().filter(|p| p.len() <= nested_len).cloned().collect();

    // 1. single patterns (≤ 3 elements + edge cases) × {full, prefix} × all paths
    let singles = single_specs(3, "p");
    phase_match(&r, "match-single", &singles, &paths);
    // 2. lists of two: 1-element patterns + edge cases on all paths; ≤ 2-element patterns on shorter paths
    let lists1 = list_specs(1);
    phase_match(&r, "match-list1", &lists1, &paths);
    let lists2 = list_specs(2);
    phase_match(&r, "match-list2", &lists2, &short_paths);
    let lists3 = list3_specs(1);
    phase_match(&r, "match-list3", &lists3, if thorough { &nested_paths } else { &paths });
    // 3. nested: a prefix resource (1 element / edge case / list) then an inner resource on the same Path
    let mut outer: Vec<Spec> = single_specs(1, "p").into_iter().filter(|s| s.prefix).collect();
    outer.extend(lists1.iter().filter(|s| s.prefix).step_by(7).cloned());
    let mut inner = single_specs(2, "q");
    // multi-pattern inner resources too (they capture from the unprocessed part of the path)
    inner.extend(list_specs_named(1, "q").into_iter().filter(|s| !s.prefix).step_by(if thorough { 1 } else { 3 }));
    phase_nested(&r, &outer, &inner, &nested_paths);
    // 4. build + round trip
    let mut build_specs = singles.clone();
    build_specs.extend(if thorough { lists2.clone() } else { lists1.clone() });
    phase_build(&r, &build_specs);
    // 5. Path::load
    let mut load_specs = single_specs(2, "p");
    load_specs.extend(lists1.clone());
    if thorough {
        load_specs.extend(singles.iter().filter(|s| s.pats[0].dyn_count() <= 4).cloned());
    }
    phase_load(&r, &load_specs);
    // 6. percent-decoder
    phase_decoder(&r, dec_len, &gen::escape_pair_inputs());
    // 7. long paths
    phase_long(&r);

    let capped = r.capped.load(Ordering::SeqCst);
    let total = r.total.into_inner().unwrap();
    let completed = r.completed.into_inner().unwrap();
    let wall = start.elapsed().as_secs_f64();

    let mut rep = Reporter::new(PROP);
    for (_, (_, _, v)) in total.viol.iter() {
        rep.add(v.clone());
    }
    let evaluations: u64 = total.evals.values().sum();
    let mut ev = Evidence::new(PROP, &args.tier, "exploration");
    ev.set("evaluations", evaluations)
        .set("distinct_nontrivial", total.shapes.len() as u64)
        .set(
            "rule",
            "Full cartesian products, no sampling: (1) every pattern made of ≤3 elements from {/a, /ab, /{x}, /a{x}, /{x}-{y}, /{x:[ab]+}, /{x:\\d+}, /{t:.*}, /{t}*} (tail last; params renamed p0..) plus edge patterns {\"\", /, /a/, //, /{p0}/, /a/{p0}/, /{p0}-a, /-{p0}-, /{p0}.1, /a.b, /a-b}, as full and as prefix resource, × ALL paths over {/,a,b,1,-} up to the length bound; (2) all ordered two-pattern lists, and three-pattern lists with a repeated member [a,a,b], [a,b,b]; (3) nested prefix→inner matching on one Path; (4) resource_path_from_iter/_from_map over value menus; (5) Path::load over percent-escape menus; (6) Quoter/Url over ALL byte strings up to the bound over {%,2,5,F,f,a,/,+,0x80,B} × 5 protected sets plus every %XY pair of hex digits and their ASCII neighbours; (7) long paths at 8/15/16-bit offset limits. Each case compares is_match, find_match, capture_match_info (+_fn) and Path accessors with an independent backtracking reference matcher / reference decoder. distinct_nontrivial = number of distinct (resource definition, matched length, tuple of capture lengths) classes among cases where the real matcher and the reference both matched and ≥1 parameter was captured (for load: resource + decoded lengths); counted with a hash set.",
        )
        .set("samples", Value::Array(total.samples.iter().map(|s| s.1.clone()).collect()))
        .set("exhaustive", !capped)
        .set("capped", capped)
        .set("evaluations_by_phase", json!(total.evals))
        .set("phases", json!(completed))
        .set("path_length_bound", path_len)
        .set("path_length_bound_two_element_lists", list2_len)
        .set("path_length_bound_nested", nested_len)
        .set("decoder_length_bound", dec_len)
        .set("paths_enumerated", paths.len() as u64)
        .set("resources_single", singles.len() as u64)
        .set("resources_list", (lists1.len() + lists2.len() + lists3.len()) as u64)
        .set("matches", total.matched)
        .set("matches_with_captures", total.matched_with_caps)
        .set("list_choice_not_first_pattern", total.list_nonfirst)
        .set("url_inputs_rejected_by_http_uri", total.url_rejected_by_http)
        .set("violating_cases", total.violating_cases)
        .set("violations", json!(rep.summaries()))
        .set("threads", r.threads as u64);
    ev.assume("the reference matcher implements the documented pattern language (ResourceDef doc comments) with leftmost-first greedy capture semantics, for the piece languages [^/]+, [ab]+, \\d+, .* only")
        .assume("for a multi-pattern resource any matching pattern of the list may supply length and captures (the docs do not say which); the count of cases where it was not the first is reported")
        .assume("'yields those values back' is demanded only when the built path has exactly one decomposition under the pattern")
        .assume("paths longer than 65 535 bytes (beyond PathItem::Segment(u16,u16) and the http::Uri limit of 65 534) are outside the quantifier")
        .assume("Url::path() is compared after String::from_utf8_lossy, as requote_str_lossy documents");
    ev.wall_s = wall;
    ev.violations = rep.unknown_count() as i64;
    ev.write();

    println!(
        "routex C10 tier={} evaluations={} distinct_nontrivial={} matches={} violating_cases={} capped={} wall={:.1}s",
        args.tier,
        evaluations,
        total.shapes.len(),
        total.matched,
        total.violating_cases,
        capped,
        wall
    );
    for c in &completed {
        println!("  {c}");
    }
    std::process::exit(rep.finish());
}
