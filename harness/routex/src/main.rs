fn main() {
    eprintln!("MACHINERY: engine routex is not built yet");
    std::process::exit(2);
}
