//! Reference semantics for C10, written from the documentation of `actix_router::ResourceDef`
//! (never from its code): a pattern is a sequence of literal pieces and dynamic pieces, a dynamic
//! piece `{name}` is the regex `[^/]+`, `{name:re}` is `re`, a tail `{name}*` is `.*`; a full
//! resource must consume the whole path, a prefix resource must stop at a segment boundary (end
//! of path or just before a `/`). Capture semantics are those of a leftmost-first regex engine:
//! greedy pieces try their longest run first and give back one character at a time.
//!
//! Only four piece languages are supported (so that each can be decided by hand):
//! `[^/]+`, `[ab]+`, `\d+`, `.*`.

use serde_json::{json, Value};

#[derive(Clone, Copy, Debug, PartialEq, Eq)]
pub enum Class {
    /// `[^/]+` — the default for `{name}`
    Seg,
    /// `[ab]+`
    Ab,
    /// `\d+` (ASCII digits are the only digits in any enumerated alphabet)
    Digit,
    /// `.*` with the `s` flag: any run of characters, possibly empty
    Any,
}

impl Class {
    pub fn accepts(self, b: u8) -> bool {
        match self {
            Class::Seg => b != b'/',
            Class::Ab => b == b'a' || b == b'b',
            Class::Digit => b.is_ascii_digit(),
            Class::Any => true,
        }
    }
    pub fn min_len(self) -> usize {
        match self {
            Class::Any => 0,
            _ => 1,
        }
    }
    /// membership of a whole value in the piece language
    pub fn contains(self, v: &[u8]) -> bool {
        v.len() >= self.min_len() && v.iter().all(|&b| self.accepts(b))
    }
}

#[derive(Clone, Debug, PartialEq, Eq)]
pub enum Tok {
    Lit(String),
    /// `tail` = written with the `{name}*` syntax (language `.*`), otherwise `{name}` / `{name:re}`
    Dyn { name: String, class: Class, tail: bool },
}

#[derive(Clone, Debug)]
pub struct Pat {
    pub toks: Vec<Tok>,
}

impl Pat {
    /// The pattern string handed to actix-router.
    pub fn text(&self) -> String {
        let mut s = String::new();
        for t in &self.toks {
            match t {
                Tok::Lit(l) => s.push_str(l),
                Tok::Dyn { name, class, tail } => {
                    s.push('{');
                    s.push_str(name);
                    match (class, tail) {
                        (Class::Any, true) => s.push_str("}*"),
                        (Class::Seg, _) => s.push('}'),
                        (Class::Ab, _) => s.push_str(":[ab]+}"),
                        (Class::Digit, _) => s.push_str(":\\d+}"),
                        (Class::Any, false) => s.push_str(":.*}"),
                    }
                }
            }
        }
        s
    }
    pub fn names(&self) -> Vec<&str> {
        self.toks
            .iter()
            .filter_map(|t| match t {
                Tok::Dyn { name, .. } => Some(name.as_str()),
                _ => None,
            })
            .collect()
    }
    pub fn classes(&self) -> Vec<Class> {
        self.toks
            .iter()
            .filter_map(|t| match t {
                Tok::Dyn { class, .. } => Some(*class),
                _ => None,
            })
            .collect()
    }
    pub fn dyn_count(&self) -> usize {
        self.toks.iter().filter(|t| matches!(t, Tok::Dyn { .. })).count()
    }
    /// Concatenate literals and the given values (the documented meaning of building a path).
    pub fn build(&self, values: &[&str]) -> String {
        let mut s = String::new();
        let mut i = 0;
        for t in &self.toks {
            match t {
                Tok::Lit(l) => s.push_str(l),
                Tok::Dyn { .. } => {
                    s.push_str(values[i]);
                    i += 1;
                }
            }
        }
        s
    }

    /// Parse the engine's own pattern notation back (used by `--replay` so that hand-written
    /// replay files work). Only the restricted grammar is accepted.
    pub fn parse(text: &str) -> Result<Pat, String> {
        let mut toks = Vec::new();
        let mut rest = text;
        while let Some(i) = rest.find('{') {
            if i > 0 {
                toks.push(Tok::Lit(rest[..i].to_string()));
            }
            let close = rest[i..].find('}').ok_or("unclosed '{'")? + i;
            let inner = &rest[i + 1..close];
            let after = &rest[close + 1..];
            let (name, class, tail, adv) = match inner.split_once(':') {
                None if after == "*" => (inner, Class::Any, true, 1),
                None => (inner, Class::Seg, false, 0),
                Some((n, "[ab]+")) => (n, Class::Ab, false, 0),
                Some((n, "\\d+")) => (n, Class::Digit, false, 0),
                Some((n, ".*")) => (n, Class::Any, false, 0),
                Some((n, "[^/]+")) => (n, Class::Seg, false, 0),
                Some((_, re)) => return Err(format!("regex {re:?} is outside the reference grammar")),
            };
            toks.push(Tok::Dyn { name: name.to_string(), class, tail });
            rest = &after[adv..];
        }
        if !rest.is_empty() {
            if rest.contains('}') || rest.ends_with('*') {
                return Err(format!("pattern piece {rest:?} is outside the reference grammar"));
            }
            toks.push(Tok::Lit(rest.to_string()));
        }
        Ok(Pat { toks })
    }
}

/// One resource definition under test: one pattern or a list, full or prefix.
#[derive(Clone, Debug)]
pub struct Spec {
    pub pats: Vec<Pat>,
    pub list: bool,
    pub prefix: bool,
}

impl Spec {
    pub fn single(p: Pat, prefix: bool) -> Spec {
        Spec { pats: vec![p], list: false, prefix }
    }
    pub fn list(ps: Vec<Pat>, prefix: bool) -> Spec {
        Spec { pats: ps, list: true, prefix }
    }
    pub fn texts(&self) -> Vec<String> {
        self.pats.iter().map(|p| p.text()).collect()
    }
    pub fn label(&self) -> String {
        let t = self.texts();
        let body = if self.list { format!("[{}]", t.join(", ")) } else { t[0].clone() };
        format!("{}({})", if self.prefix { "prefix" } else { "new" }, body)
    }
    /// coarse, input-independent class used in violation signatures
    pub fn kind(&self) -> String {
        let shape = if self.list {
            "list"
        } else if self.pats[0].dyn_count() == 0 {
            "static"
        } else {
            "dynamic"
        };
        format!("{}-{}", shape, if self.prefix { "prefix" } else { "full" })
    }
    pub fn to_json(&self) -> Value {
        json!({"patterns": self.texts(), "list": self.list, "prefix": self.prefix})
    }
    pub fn from_json(v: &Value) -> Result<Spec, String> {
        let pats: Vec<Pat> = v["patterns"]
            .as_array()
            .ok_or("replay: 'patterns' must be an array of strings")?
            .iter()
            .map(|s| Pat::parse(s.as_str().unwrap_or("")))
            .collect::<Result<_, _>>()?;
        if pats.is_empty() {
            return Err("replay: empty pattern list".into());
        }
        let list = v["list"].as_bool().unwrap_or(pats.len() > 1);
        if !list && pats.len() != 1 {
            return Err("replay: list=false needs exactly one pattern".into());
        }
        Ok(Spec { pats, list, prefix: v["prefix"].as_bool().unwrap_or(false) })
    }
}

/// Result of the reference matcher: matched length and the byte range of every dynamic piece in
/// pattern order.
#[derive(Clone, Debug, PartialEq, Eq)]
pub struct RefMatch {
    pub len: usize,
    pub caps: Vec<(usize, usize)>,
}

fn at_boundary(prefix: bool, path: &[u8], pos: usize) -> bool {
    if prefix {
        pos == path.len() || path[pos] == b'/'
    } else {
        pos == path.len()
    }
}

fn go(toks: &[Tok], prefix: bool, path: &[u8], pos: usize, caps: &mut Vec<(usize, usize)>) -> Option<usize> {
    match toks.first() {
        None => at_boundary(prefix, path, pos).then_some(pos),
        Some(Tok::Lit(l)) => {
            if path[pos..].starts_with(l.as_bytes()) {
                go(&toks[1..], prefix, path, pos + l.len(), caps)
            } else {
                None
            }
        }
        Some(Tok::Dyn { class, .. }) => {
            let mut run = 0;
            while pos + run < path.len() && class.accepts(path[pos + run]) {
                run += 1;
            }
            let min = class.min_len();
            if run < min {
                return None;
            }
            let mut k = run;
            loop {
                caps.push((pos, pos + k));
                if let Some(end) = go(&toks[1..], prefix, path, pos + k, caps) {
                    return Some(end);
                }
                caps.pop();
                if k == min {
                    return None;
                }
                k -= 1;
            }
        }
    }
}

/// Leftmost-first (greedy, backtracking) match of one pattern.
pub fn ref_match(pat: &Pat, prefix: bool, path: &[u8]) -> Option<RefMatch> {
    let mut caps = Vec::new();
    let len = go(&pat.toks, prefix, path, 0, &mut caps)?;
    Some(RefMatch { len, caps })
}

fn count(toks: &[Tok], prefix: bool, path: &[u8], pos: usize, limit: usize) -> usize {
    match toks.first() {
        None => at_boundary(prefix, path, pos) as usize,
        Some(Tok::Lit(l)) => {
            if path[pos..].starts_with(l.as_bytes()) {
                count(&toks[1..], prefix, path, pos + l.len(), limit)
            } else {
                0
            }
        }
        Some(Tok::Dyn { class, .. }) => {
            let mut run = 0;
            while pos + run < path.len() && class.accepts(path[pos + run]) {
                run += 1;
            }
            let mut n = 0;
            for k in class.min_len()..=run {
                n += count(&toks[1..], prefix, path, pos + k, limit);
                if n >= limit {
                    break;
                }
            }
            n
        }
    }
}

/// Number of different ways (capture ranges + end position) the pattern matches, up to `limit`.
pub fn count_decompositions(pat: &Pat, prefix: bool, path: &[u8], limit: usize) -> usize {
    count(&pat.toks, prefix, path, 0, limit)
}

/// Is (`len`, `caps`) *a* valid way of matching `pat` against `path` (not necessarily the greedy
/// one)? Uses only the piece languages and the boundary rule.
pub fn is_valid_decomposition(pat: &Pat, prefix: bool, path: &[u8], len: usize, caps: &[(usize, usize)]) -> bool {
    let mut pos = 0;
    let mut ci = 0;
    for t in &pat.toks {
        match t {
            Tok::Lit(l) => {
                if pos > path.len() || !path[pos..].starts_with(l.as_bytes()) {
                    return false;
                }
                pos += l.len();
            }
            Tok::Dyn { class, .. } => {
                let Some(&(s, e)) = caps.get(ci) else { return false };
                ci += 1;
                if s != pos || e < s || e > path.len() || !class.contains(&path[s..e]) {
                    return false;
                }
                pos = e;
            }
        }
    }
    ci == caps.len() && pos == len && len <= path.len() && at_boundary(prefix, path, pos)
}

pub fn hexval(b: u8) -> Option<u8> {
    match b {
        b'0'..=b'9' => Some(b - b'0'),
        b'a'..=b'f' => Some(b - b'a' + 10),
        b'A'..=b'F' => Some(b - b'A' + 10),
        _ => None,
    }
}

/// Reference partial percent-decoder: every `%XX` with two hex digits whose value is not in
/// `protected` becomes that byte; everything else is copied verbatim.
pub fn ref_requote(input: &[u8], protected: &[u8]) -> Vec<u8> {
    let mut out = Vec::with_capacity(input.len());
    let mut i = 0;
    while i < input.len() {
        if input[i] == b'%' && i + 2 < input.len() {
            if let (Some(h), Some(l)) = (hexval(input[i + 1]), hexval(input[i + 2])) {
                let b = h * 16 + l;
                if !protected.contains(&b) {
                    out.push(b);
                    i += 3;
                    continue;
                }
            }
        }
        out.push(input[i]);
        i += 1;
    }
    out
}
