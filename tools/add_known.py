#!/usr/bin/env python3
"""usage: add_known.py <PROP> <what-text> [sig-prefix]  — reads `./check PROP quick` VIOLATION output on stdin and adds known entries
for each (clause, signature) whose signature starts with the prefix; copies replays to findings/<PROP>/."""
import json,sys,re,shutil,os
prop,what=sys.argv[1],sys.argv[2]
prefix=sys.argv[3] if len(sys.argv)>3 else ''
txt=sys.stdin.read().splitlines()
p='/verif/known_findings.json'
k=json.load(open(p))
os.makedirs(f'/verif/findings/{prop}',exist_ok=True)
n=0
for i,l in enumerate(txt):
    m=re.match(r'VIOLATION property=(\S+) replay=(\S+)',l)
    if not m or m.group(1)!=prop: continue
    m2=re.match(r'\s+clause=(\S+) signature=(\S+)',txt[i+1])
    cl,sig=m2.group(1),m2.group(2)
    if not sig.startswith(prefix) and prefix not in sig: continue
    if any(f['property']==prop and f['clause']==cl and f['signature']==sig for f in k['findings']): continue
    name=re.sub(r'[^A-Za-z0-9]+','-',f'{cl}-{sig}')+'.json'
    shutil.copy(m.group(2),f'/verif/findings/{prop}/{name}')
    k['findings'].append({"property":prop,"clause":cl,"signature":sig,"status":"known","what":what,"replay":f"findings/{prop}/{name}"})
    n+=1
json.dump(k,open(p,'w'),indent=1); open(p,'a').write('\n')
print('added',n)
