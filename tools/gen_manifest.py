#!/usr/bin/env python3
"""Regenerates /verif/MANIFEST.json from the table below and validates it against the schema.
Edit CLAIMED / NOT_YET when an engine lands; never edit MANIFEST.json by hand."""
import json, sys, os

ENGINES = {
    "h1x": ("real HTTP/1 connection (h1::Dispatcher via HttpService) under a scripted socket, scripted handlers/bodies and virtual time; stateless deviation-bounded exploration of every environment answer", ["C01", "C02", "C03", "C04", "C05", "C06"]),
    "seqx": ("explicit-state BFS over operation sequences applied to the real object next to a reference model", ["C07", "C18"]),
    "codecx": ("explicit-state / cut-bounded exploration of the real ws::Codec and h1::Codec over all segmentations", ["C14"]),
    "h2x": ("real HTTP/2 server connection against an h2 client over an in-memory pipe; exploration of peer flow-control schedules", ["C08"]),
    "routex": ("bounded-exhaustive enumeration of patterns x paths against a reference matcher; percent-decoder over all short byte strings", ["C10"]),
    "appx": ("bounded-exhaustive enumeration of route tables (scopes, resources, guards, defaults, data) x request paths against a reference router, through the public App builder", ["C09"]),
    "webx": ("bounded-exhaustive request histories through one service instance (pool reuse) and URL-token strings x range grids through actix-files", ["C11", "C16"]),
    "bodyx": ("bounded-exhaustive bodies x chunkings x limits x codings through the real extractors and the Compress/Decompress middleware", ["C12", "C13"]),
    "mpx": ("real Multipart parser under scripted chunk streams: every chunking / truncation point with a wake-driven executor", ["C15"]),
    "awcx": ("real awc::Client over an in-memory scripted connector: close at every byte offset, cuts, request sequences", ["C17"]),
    "panicx": ("bounded-exhaustive hostile inputs (token strings, single/double mutations) into every peer-facing parser with catch_unwind", ["C19"]),
}

# property -> dict(level, text, note, technique, design_ref, thorough=True)
CLAIMED = {}

NOT_YET = "check not built yet (engine planned in DESIGN.md §3); will be claimed once it passes on the unchanged tree and has caught a seeded defect"

def load_claims():
    p = os.path.join(os.path.dirname(__file__), "claims.json")
    if os.path.exists(p):
        return json.load(open(p))
    return {}

def main():
    props = [json.loads(l) for l in open("/verif/properties.jsonl")]
    claims = load_claims()
    eng_of = {p: e for e, (_, ps) in ENGINES.items() for p in ps}
    checks, na = [], []
    for p in props:
        pid = p["id"]
        c = claims.get(pid)
        if not c:
            na.append({"property_id": pid, "reason": NOT_YET})
            continue
        chk = {
            "property_id": pid,
            "quick_cmd": f"./check {pid} quick",
            "thorough_cmd": f"./check {pid} thorough",
            "evidence_file": f"/verif/evidence/{pid}.json",
            "replay_cmd_template": f"./check {pid} --replay {{path}}",
            "engine": eng_of[pid],
            "level_claimed": {"category": c["level"], "text": c["text"], "design_ref": c.get("design_ref", f"DESIGN.md §4 {pid}")},
            "level_note": c["note"],
            "technique": c["technique"],
        }
        checks.append(chk)
    hooks = json.load(open(os.path.join(os.path.dirname(__file__), "hooks.json")))
    m = {
        "version": 1,
        "setup_cmd": "cd /verif/harness && CARGO_NET_OFFLINE=true cargo build --offline --workspace",
        "hooks": hooks,
        "engines": [{"name": e, "path": f"/verif/harness/{e}", "serves_properties": ps, "kind_free_text": d} for e, (d, ps) in ENGINES.items()],
        "checks": checks,
        "notes": "All checks are exhaustive enumerations of a bounded behaviour space of the real code (model checking family): stateless deviation-bounded exploration, explicit-state BFS with canonical keys, or bounded-exhaustive input enumeration. See DESIGN.md. Exit codes: 0 held, 1 violation, 2 machinery problem.",
        "not_applicable": na,
    }
    json.dump(m, open("/verif/MANIFEST.json", "w"), indent=1)
    open("/verif/MANIFEST.json", "a").write("\n")
    try:
        import jsonschema
        jsonschema.validate(m, json.load(open("/root/.vp/MANIFEST.schema.json")))
        print("MANIFEST.json valid;", len(checks), "claimed,", len(na), "not applicable")
    except ImportError:
        print("jsonschema not importable with this python; use python3-vt", file=sys.stderr)

if __name__ == "__main__":
    main()
