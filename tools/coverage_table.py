#!/usr/bin/env python3
"""Prints the D.2 table of DESIGN.md from the evidence files of the last runs (measured numbers)."""
import json
ENG={'C01':'h1x','C02':'h1x','C03':'h1x','C04':'h1x','C05':'h1x','C06':'h1x','C07':'seqx','C08':'h2x','C09':'appx','C10':'routex','C11':'webx','C12':'bodyx','C13':'bodyx','C14':'codecx','C15':'mpx','C16':'webx','C17':'awcx','C18':'seqx','C19':'panicx'}
def g(c,*ks):
    for k in ks:
        if k in c and not isinstance(c[k],(dict,list)): return c[k]
    return None
print('| id | engine | tier | level | states / transitions | executions or evaluations | scenarios | non-trivial classes | deviation bound done | exhaustive within bounds | wall s |')
print('|---|---|---|---|---|---|---|---|---|---|---|')
for i in range(1,20):
    p=f'C{i:02d}'
    d=json.load(open(f'/verif/evidence/{p}.json')); c=d['coverage']
    st=g(c,'states'); tr=g(c,'transitions')
    stt=f'{st:,} / {tr:,}' if st is not None and tr is not None else ''
    ev=g(c,'evaluations','executions','executions_checked')
    sc=g(c,'scenarios')
    nt=g(c,'distinct_nontrivial')
    bd=g(c,'deviation_bound_completed','bound_completed')
    ex=g(c,'exhaustive'); cap=g(c,'capped')
    print(f"| {p} | {ENG[p]} | {d['tier']} | {d['level']} | {stt} | {ev:,} | {sc if sc is not None else ''} | {nt:,} | {bd if bd is not None and not isinstance(bd,str) else ''} | {'yes' if ex and not cap else ('no (cap or choice budget, see evidence)' )} | {d['wall_s']:.1f} |")
