#!/usr/bin/env python3
"""usage: ingest_seed.py <PROP> <n> <caught: yes|no|masked> <check outcome text> [<strengthening text>]
copies /tmp/seed-<PROP>/SEED/<n> to /verif/seeded/<PROP>-<n>/ and writes meta.json"""
import sys,os,shutil,json,re
prop,n,caught,outcome=sys.argv[1:5]
strength=sys.argv[5] if len(sys.argv)>5 else ""
import os as _os
rnd=_os.environ.get("SEED_ROUND","")
off={'':0,'2':2,'3':4,'4':6}[rnd]
src=f"/tmp/seed{rnd}-{prop}/SEED/{n}"; dst=f"/verif/seeded/{prop}-{int(n)+off}"
if os.path.exists(dst): shutil.rmtree(dst)
os.makedirs(dst)
shutil.copy(f"{src}/patch.diff",dst)
if os.path.isdir(f"{src}/demo"): shutil.copytree(f"{src}/demo",f"{dst}/demo")
if os.path.exists(f"{src}/notes.md"): shutil.copy(f"{src}/notes.md",dst)
log=f"/tmp/seedlogs/{prop}{('r'+rnd) if rnd else ''}-SEED-{n}.log"
ver=open(log).read() if os.path.exists(log) else ""
res=re.findall(r"RESULT .*",ver)
notes=open(f"{src}/notes.md").read() if os.path.exists(f"{src}/notes.md") else ""
files=re.findall(r"^\+\+\+ b/(\S+)",open(f"{src}/patch.diff").read(),re.M)
meta={
 "property":prop,
 "author":"independent sub-agent given only the property text and its own scratch worktree" + (f" (round {rnd}: also told which code sites earlier authors had used, and asked for others)" if rnd else ""),
 "files_changed":files,
 "needs_to_manifest":"see notes.md (author's description of the specific interleaving / input / sequence required)",
 "independently_confirmed":{
   "how":"tools/verify_seed.sh in a scratch worktree of /repo HEAD: git apply; cargo test -p <touched crate(s)> with the features their tests need (WITH the patch); the author's demo copied into that crate's tests/ and run WITH and WITHOUT the patch",
   "result":res[-1] if res else "not run",
   "log_excerpt":[l for l in ver.splitlines() if l.startswith("==") or l.startswith("test result")][:40]},
 "check":{"command":f"VERIF_REPO=<worktree with patch.diff applied> ./check {prop} quick","caught":caught,"outcome":outcome,"strengthening":strength},
}
json.dump(meta,open(f"{dst}/meta.json","w"),indent=1)
print("ingested",dst)
