#!/usr/bin/env python3
"""Regenerates /verif/seeded/README.md from the meta.json files."""
import json,glob,os
rows=[]
for d in sorted(glob.glob('/verif/seeded/*/')):
    m=json.load(open(d+'meta.json'))
    rows.append((os.path.basename(d[:-1]),m))
out=["# Seeded property-breaking changes\n",
"Each directory holds one change to actix-web written by an independent sub-agent that saw only the text of one property and its own scratch worktree of /repo (nothing from /verif): `patch.diff`, the author's demonstration (`demo/`, fails with the change, passes without), the author's `notes.md`, and `meta.json` (what was independently confirmed, which check catches it). None of them is ever committed to /repo. To run a check against one: `git -C /repo apply <patch.diff>; ./check <ID> quick; git -C /repo checkout -- .` (or use a scratch worktree with `VERIF_REPO=`).\n",
"| seed | files | confirmed (suite with patch / demo with / demo without) | caught | check outcome | strengthening it triggered |","|---|---|---|---|---|---|"]
for name,m in rows:
    r=m['independently_confirmed']['result'].replace('RESULT ','')
    out.append(f"| {name} | {', '.join(m['files_changed'])} | {r} | {m['check']['caught']} | {m['check']['outcome']} | {m['check'].get('strengthening','')} |")
open('/verif/seeded/README.md','w').write('\n'.join(out)+'\n')
print(len(rows),'seeds')
