#!/bin/bash
# usage: verify_seed.sh <seed dir> <worktree> <out log>
# Confirms independently: patch applies; touched crates' own tests pass WITH the patch;
# demo fails WITH the patch and passes WITHOUT it.
d=$1; wt=$2; log=$3
export CARGO_TARGET_DIR=$wt/target CARGO_NET_OFFLINE=true
exec >"$log" 2>&1
cd $wt || exit 2
git checkout -q -- . ; git clean -fdq -e target -e SEED >/dev/null 2>&1
# always verify against /repo's current HEAD (the worktree may predate later fix: commits)
git checkout -q --detach "$(git -C /repo rev-parse HEAD)" || exit 2
echo "base commit: $(git rev-parse --short HEAD)"
git apply $d/patch.diff || { echo "RESULT apply=FAIL"; exit 1; }
crates=$(git diff --name-only | cut -d/ -f1 | sort -u | tr '\n' ' ')
echo "touched crates: $crates"
suite=PASS
for c in $crates; do
  feat=""
  [ "$c" = actix-http ] && feat="--features http2,ws,compress-gzip,compress-brotli,compress-zstd"
  [ "$c" = awc ] && feat="--features compress-gzip,compress-brotli,compress-zstd"
  [ "$c" = actix-web ] && feat="--features compress-gzip,compress-brotli,compress-zstd,macros"
  echo "== cargo test -p $c $feat (with patch)"
  cargo test -p $c --offline $feat 2>&1 | grep -E "^test result|FAILED|panicked|^error" | head -30
  [ "${PIPESTATUS[0]}" = 0 ] || suite=FAIL
done
# demo: integration test files go to the tests dir of the crate named in notes / path heuristics
demo_res_with=NA; demo_res_without=NA
for f in $d/demo/*.rs; do
  [ -f "$f" ] || continue
  name=$(basename $f .rs)
  # which crate? look for a hint in notes.md, default: first touched crate
  crate=$(grep -oE "(actix-http|actix-web|actix-router|actix-multipart|actix-files|awc)/tests" $d/notes.md | head -1 | cut -d/ -f1)
  [ -z "$crate" ] && crate=$(echo $crates | cut -d' ' -f1)
  feat=""
  [ "$crate" = actix-http ] && feat="--features http2,ws,compress-gzip,compress-brotli,compress-zstd"
  [ "$crate" = awc ] && feat="--features compress-gzip,compress-brotli,compress-zstd"
  [ "$crate" = actix-web ] && feat="--features compress-gzip,compress-brotli,compress-zstd,macros"
  # patched tree (re-applied for every demo file: several demos per seed are possible)
  git checkout -q -- . ; git apply $d/patch.diff
  mkdir -p $wt/$crate/tests; cp $f $wt/$crate/tests/$name.rs
  echo "== demo $name in $crate WITH patch"
  cargo test -p $crate --offline $feat --test $name 2>&1 | grep -E "^test result|FAILED|panicked|^error" | head -10
  r=${PIPESTATUS[0]}
  # one failing demo is enough to demonstrate the breakage; all must pass on the clean tree
  if [ "$r" != 0 ]; then demo_res_with=FAIL; elif [ "$demo_res_with" = NA ]; then demo_res_with=PASS; fi
  git checkout -q -- .
  echo "== demo $name in $crate WITHOUT patch"
  cargo test -p $crate --offline $feat --test $name 2>&1 | grep -E "^test result|FAILED|panicked|^error" | head -10
  r=${PIPESTATUS[0]}
  if [ "$r" != 0 ]; then demo_res_without=FAIL; elif [ "$demo_res_without" = NA ]; then demo_res_without=PASS; fi
  rm -f $wt/$crate/tests/$name.rs
done
git checkout -q -- . ; git clean -fdq -e target -e SEED >/dev/null 2>&1
echo "RESULT apply=OK suite_with_patch=$suite demo_with_patch=$demo_res_with demo_without_patch=$demo_res_without"
